"""C18 MQTT transport maps topics and lines one-to-one and never goes silently deaf.

Decides TOPIC-MAP (symbolic string terms of both mapping functions, subscription
list), FIFO-1, TASK-ESC, EEA-MQTT, LIFE-1 at _disconnect.  Broker / aiomqtt
behaviour is trusted (summaries).
"""

from __future__ import annotations

import ast

from ..model import AnalysisError, Unfoldable, norm
from . import codec, lifecycle
from .common import Ctx, callee_names, escape_rule, fkey, short

MT = "aiomysensors.transport.mqtt.MQTTTransport"
MC = "aiomysensors.transport.mqtt.MQTTClient"
TERR = "aiomysensors.exceptions.TransportError"


def run(ctx: Ctx, chk) -> None:
    chk.assume("A1", "A3", "A4", "A5", "A7")
    chk.run_rule(topic_map, ctx)
    chk.run_rule(topic_map_writer, ctx)
    chk.run_rule(fifo1, ctx)
    chk.run_rule(task_esc, ctx)
    chk.run_rule(eea_mqtt, ctx)
    chk.run_rule(prefix_identity, ctx)
    from . import tables as _tables

    chk.run_rule(_tables.write_sync_rule, ctx)
    rule = "LIFE-1"
    chk.rule(rule, "a task that is cancelled and then awaited does not re-raise CancelledError into the awaiter (protected await, or a body that absorbs cancellation at every suspension point)")
    mc = ctx.cls(MC)
    n = lifecycle.life1(ctx, chk, rule, [f for fl in mc.mro_methods().values() for f in fl])
    chk.floor(rule, "cancel-then-await sites in MQTTClient", n, 1)


# ---------------------------------------------------------------------------
# symbolic string terms


class TermError(Exception):
    pass


class StrEval:
    """Symbolic evaluation of straight-line string-manipulating functions."""

    def __init__(self, ctx: Ctx, f) -> None:
        self.ctx = ctx
        self.f = f
        self.env: dict = {p: ("param", p) for p in f.params}
        self.ret = None

    def run(self):
        for s in self.f.node.body:
            self.stmt(s)
            if self.ret is not None:
                break
        if self.ret is None:
            raise TermError("no return reached")
        return self.ret

    def stmt(self, s):
        if isinstance(s, ast.Expr):
            if isinstance(s.value, ast.Constant):
                return
            v = s.value
            if isinstance(v, ast.Call) and isinstance(v.func, ast.Attribute) and v.func.attr == "append" and isinstance(v.func.value, ast.Name) and len(v.args) == 1:
                lst = self.env.get(v.func.value.id)
                if lst is None:
                    raise TermError(f"append on unknown {v.func.value.id}")
                self.env[v.func.value.id] = ("listcat", lst, ("list", (self.ev(v.args[0]),)))
                return
            raise TermError(f"statement `{norm(s)[:60]}`")
        if isinstance(s, ast.Assign) and len(s.targets) == 1:
            t = s.targets[0]
            val = self.ev(s.value)
            if isinstance(t, ast.Name):
                self.env[t.id] = val
                return
            if isinstance(t, ast.Tuple) and all(isinstance(e, ast.Name) for e in t.elts):
                n = len(t.elts)
                for i, e in enumerate(t.elts):
                    self.env[e.id] = ("elem", val, i, n)
                return
            raise TermError(f"assignment target `{norm(t)}`")
        if isinstance(s, ast.Return):
            self.ret = self.ev(s.value)
            return
        raise TermError(f"statement kind {type(s).__name__} (line {s.lineno})")

    def ev(self, e):
        if isinstance(e, ast.Constant):
            return ("const", e.value)
        if isinstance(e, ast.Name):
            if e.id in self.env:
                return self.env[e.id]
            try:
                return ("const", self.ctx.folder.plain(self.ctx.folder.fold(self.f.module, e)))
            except Unfoldable as err:
                raise TermError(f"name {e.id}: {err}") from err
        if isinstance(e, ast.Attribute):
            return ("attr", norm(e))
        if isinstance(e, ast.Tuple) and not any(isinstance(x, ast.Starred) for x in e.elts):
            return ("tuple", tuple(self.ev(x) for x in e.elts))
        if isinstance(e, (ast.List, ast.Tuple)):
            if any(isinstance(x, ast.Starred) for x in e.elts):
                # [*xs, a, b] = xs + [a, b]
                acc = None
                run: list = []
                for x in e.elts:
                    if isinstance(x, ast.Starred):
                        if run:
                            piece = ("list", tuple(run))
                            acc = piece if acc is None else ("listcat", acc, piece)
                            run = []
                        piece = self.ev(x.value)
                        acc = piece if acc is None else ("listcat", acc, piece)
                    else:
                        run.append(self.ev(x))
                if run:
                    piece = ("list", tuple(run))
                    acc = piece if acc is None else ("listcat", acc, piece)
                return acc
            return ("list", tuple(self.ev(x) for x in e.elts))
        if isinstance(e, ast.JoinedStr):
            parts = []
            for v in e.values:
                if isinstance(v, ast.Constant):
                    parts.append(("const", v.value))
                elif isinstance(v, ast.FormattedValue) and v.conversion == -1 and v.format_spec is None:
                    parts.append(self.ev(v.value))
                else:
                    raise TermError("format spec in f-string")
            return ("concat", tuple(parts))
        if isinstance(e, ast.BinOp) and isinstance(e.op, ast.Add):
            return ("concat", (self.ev(e.left), self.ev(e.right)))
        if isinstance(e, ast.Subscript):
            base = self.ev(e.value)
            sl = e.slice
            if isinstance(sl, ast.Slice):
                lo = self._int(sl.lower)
                hi = self._int(sl.upper)
                if sl.step is not None:
                    raise TermError("slice step")
                return ("slice", base, lo, hi)
            i = self._int(sl)
            return ("index", base, i)
        if isinstance(e, ast.Call):
            fn = e.func
            if isinstance(fn, (ast.Name, ast.Attribute)) and not any(isinstance(a, ast.Starred) for a in e.args):
                # a NamedTuple of the package built in place: the tuple of its fields
                d_ = self.ctx.prog.resolve_expr(self.f.module, fn)
                if d_ is not None and d_.kind == "class" and any(norm(b).split(".")[-1] == "NamedTuple" for b in d_.obj.node.bases):
                    flds = self.ctx.I.record_fields(d_.obj)
                    if flds is not None and len(e.args) <= len(flds):
                        vals = dict(zip(flds, e.args))
                        vals.update({k.arg: k.value for k in e.keywords if k.arg})
                        if set(vals) == set(flds):
                            return ("tuple", tuple(self.ev(vals[fl]) for fl in flds))
            if isinstance(fn, ast.Name) and fn.id == "int" and len(e.args) == 1:
                return ("int", self.ev(e.args[0]))
            if isinstance(fn, ast.Name) and fn.id == "str" and len(e.args) == 1:
                return self.ev(e.args[0])
            if isinstance(fn, ast.Attribute):
                m = fn.attr
                if m == "join" and len(e.args) == 1:
                    return ("join", self.ev(fn.value), self.ev(e.args[0]))
                base = self.ev(fn.value)
                args = [self.ev(a) for a in e.args]
                kw = {k.arg: self.ev(k.value) for k in e.keywords}
                if m in ("split", "rsplit"):
                    sep = args[0] if args else kw.get("sep")
                    mx = args[1] if len(args) > 1 else kw.get("maxsplit")
                    return (m, base, sep, mx)
                if m in ("rstrip", "strip", "lstrip") and not args:
                    return (m, base)
                if m in ("splitlines", "casefold", "lower", "upper", "title", "expandtabs", "removesuffix", "removeprefix", "encode", "decode"):
                    return ("strop", m, base, tuple(args))  # another string operation: a term of its own, never the identity
                if m in ("partition", "rpartition") and len(args) == 1:
                    return (m, base, args[0])
                if m == "replace" and len(args) == 2:
                    return ("replace", base, args[0], args[1])
            raise TermError(f"call `{norm(e)[:60]}`")
        raise TermError(f"expression {type(e).__name__} `{norm(e)[:50]}`")

    def _int(self, e):
        if e is None:
            return None
        if isinstance(e, ast.Constant) and isinstance(e.value, int):
            return e.value
        if isinstance(e, ast.UnaryOp) and isinstance(e.op, ast.USub):
            v = self._int(e.operand)
            return -v
        try:
            v = self.ctx.folder.plain(self.ctx.folder.fold(self.f.module, e))
        except Unfoldable:
            v = None
        if isinstance(v, int) and not isinstance(v, bool):
            return v
        raise TermError(f"non-constant index `{norm(e)}`")


def flatten(t) -> list:
    """Flatten concat/join terms over *known-length* lists into a sequence of atoms."""
    k = t[0]
    if k == "concat":
        out = []
        for p in t[1]:
            out += flatten(p)
        return merge_consts(out)
    if k == "join":
        sep, lst = t[1], t[2]
        items = list_items(lst)
        if items is None:
            return [t]
        out = []
        for i, it in enumerate(items):
            if i:
                out += flatten(sep)
            out += flatten(it)
        return merge_consts(out)
    return [t]


def list_items(t):
    if t[0] in ("list", "tuple"):
        return list(t[1])
    if t[0] == "listcat":
        a, b = list_items(t[1]), list_items(t[2])
        if a is None or b is None:
            return None
        return a + b
    return None


def merge_consts(seq: list) -> list:
    out: list = []
    for a in seq:
        if a[0] == "const" and out and out[-1][0] == "const":
            out[-1] = ("const", str(out[-1][1]) + str(a[1]))
        else:
            out.append(a)
    return out


def topic_map(ctx: Ctx, chk) -> None:
    rule = "TOPIC-MAP"
    chk.rule(
        rule,
        "reader: line = last five topic levels + payload joined by ';'; writer: payload is everything after the 5th ';' (DELIM-1), topic = out-prefix + '/' + the five fields joined by '/', QoS = int(ack field), all three handed to publish unchanged; subscriptions = in-prefix + '/+/+/<c>/+/+' for exactly the Command values",
    )
    mt = ctx.cls(MT)
    # ---- reader
    rd = mt.find_method("_parse_mqtt_to_message")
    if rd is None:
        raise AnalysisError("anchor vanished: MQTTTransport._parse_mqtt_to_message")
    chk.instance(rule)
    rd = ctx.inl(rd, lambda h: True)  # mapping helpers (also of a private module) written out
    try:
        ev = StrEval(ctx, rd)
        term = ev.run()
    except TermError as err:
        raise AnalysisError(f"TOPIC-MAP: reader shape not recognised: {err}") from err
    topic_p, payload_p = [p for p in rd.params if p not in ("self", "cls")][:2]
    want_list = ("listcat", ("slice", ("split", ("param", topic_p), ("const", "/"), None), -5, None), ("list", (("param", payload_p),)))
    ok = term == ("join", ("const", ";"), want_list)
    key = f"{rd.fq}::return"
    def _opaque(t_) -> str | None:
        if isinstance(t_, tuple):
            if t_ and t_[0] == "attr" and isinstance(t_[1], str) and "(" in t_[1]:
                return t_[1]
            for x_ in t_:
                r_ = _opaque(x_)
                if r_:
                    return r_
        return None

    if ok:
        chk.ok(rule, key, "';'.join(topic.split('/')[-5:] + [payload])", ctx.loc(rd, rd.node))
    elif _opaque(term):
        # the line comes out of a call the string evaluation does not look into (a record built by a classmethod ...)
        raise AnalysisError(f"TOPIC-MAP: the line built from a received topic is `{_opaque(term)[:70]}` - the result of a call that is not written out: reader shape not modelled")
    else:
        chk.refute(rule, key, f"the line built from a received topic is {show(term)}; it must be the last five topic levels and the payload joined by ';'", ctx.loc(rd, rd.node))


def topic_map_writer(ctx: Ctx, chk) -> None:
    rule = "TOPIC-MAP"
    chk.rule(rule, "writer: payload is everything after the 5th ';' (DELIM-1), topic = out-prefix + '/' + the five fields joined by '/', QoS = int(ack) (see the reader half for the full statement)")
    mt = ctx.cls(MT)
    # ---- writer
    wr = mt.find_method("_parse_message_to_mqtt")
    if wr is None:
        raise AnalysisError("anchor vanished: MQTTTransport._parse_message_to_mqtt")
    before = chk.rules[rule]["refuted"]
    wr = ctx.inl(wr, lambda h: True)
    from .common import reachable_funcs

    # the split may sit in a helper that is not written out (a classmethod constructor of a record ...): every function
    # the writer reaches is looked at
    n = codec.check_delim1(ctx, chk, rule, only_funcs={wr.fq} | {h.fq for h in getattr(wr, "inlined_funcs", [])} | set(reachable_funcs(ctx, wr)))
    chk.floor(rule, "split sites in _parse_message_to_mqtt", n, 1)
    if chk.rules[rule]["refuted"] == before:
        chk.instance(rule)
        try:
            term = StrEval(ctx, wr).run()
        except TermError as err:
            raise AnalysisError(f"TOPIC-MAP: writer shape not recognised: {err}") from err
        line_p = [p for p in wr.params if p not in ("self", "cls")][0]
        key = f"{wr.fq}::return"
        problems = []
        if term[0] != "tuple" or len(term[1]) != 3:
            problems.append(f"returns {show(term)}, not (topic, payload, qos)")
        else:
            topic_t, payload_t, qos_t = term[1]
            split_ok = lambda s: s[0] == "split" and s[2] == ("const", ";") and s[3] == ("const", 5) and s[1] in (("param", line_p), ("rstrip", ("param", line_p)))  # noqa: E731

            def field(i):
                return lambda t: t[0] == "elem" and t[2] == i and t[3] == 6 and split_ok(t[1])

            flat = flatten(topic_t)
            want = [("attr", "self.out_prefix")]
            shape_ok = len(flat) == 11 and flat[0] == ("attr", "self.out_prefix")
            if shape_ok:
                for i in range(5):
                    if flat[1 + 2 * i] != ("const", "/") or not field(i)(flat[2 + 2 * i]):
                        shape_ok = False
            if not shape_ok:
                problems.append(f"topic is {show(topic_t)}; expected out_prefix/node/child/command/ack/type")
            if not field(5)(payload_t):
                problems.append(f"payload is {show(payload_t)}; expected the 6th field of the split")
            if not (qos_t[0] == "int" and field(3)(qos_t[1])):
                problems.append(f"QoS is {show(qos_t)}; expected int(ack field)")
        if problems:
            chk.refute(rule, key, "; ".join(problems), ctx.loc(wr, wr.node))
        else:
            chk.ok(rule, key, "(out_prefix/f0/f1/f2/f3/f4, f5, int(f3)) over split(';', 5)", ctx.loc(wr, wr.node))
    # ---- write(): pass-through to publish
    w = mt.find_method("write")
    chk.instance(rule)
    calls_parse = [n for n in ctx.own_nodes(w) if isinstance(n, ast.Call) and norm(n.func) == "self._parse_message_to_mqtt"]
    calls_pub = [n for n in ctx.own_nodes(w) if isinstance(n, ast.Call) and norm(n.func) == "self._publish"]
    key = f"{w.fq}::pass-through"
    ok = False
    if len(calls_parse) == 1 and len(calls_pub) == 1:
        par = ctx.prog.parents.get(calls_parse[0])
        if isinstance(par, ast.Assign) and isinstance(par.targets[0], ast.Tuple) and len(par.targets[0].elts) == 3:
            names = [norm(e) for e in par.targets[0].elts]
            args = [norm(a) for a in calls_pub[0].args]
            kws = {k.arg: norm(k.value) for k in calls_pub[0].keywords}
            pub = mt.find_method("_publish")
            pnames = pub.positional_params[1:4]
            bound = dict(zip(pnames, args))
            bound.update(kws)
            ok = [bound.get(p) for p in pnames] == names and isinstance(ctx.prog.parents.get(calls_pub[0]), ast.Await) and norm(calls_parse[0].args[0]) == w.positional_params[1]
    if ok:
        chk.ok(rule, key, "write() hands (topic, payload, qos) of the parsed line to _publish in that order", ctx.loc(w, w.node))
    else:
        chk.refute(rule, key, "write() does not hand exactly (topic, payload, qos) of the given line to _publish", ctx.loc(w, w.node))
    # ---- MQTTClient._publish hands them to the client
    mc = ctx.cls(MC)
    pub = mc.find_method("_publish")
    chk.instance(rule)
    pc = [n for n in ctx.own_nodes(pub) if isinstance(n, ast.Call) and "aiomqtt.client.Client.publish" in callee_names(ctx, pub, n)]
    key = f"{pub.fq}::client.publish"
    if len(pc) != 1:
        raise AnalysisError(f"TOPIC-MAP: expected one client.publish call in {pub.fq}, found {len(pc)}")
    c = pc[0]
    tp, pp, qp = pub.positional_params[1:4]
    topic_ok = (c.args and norm(c.args[0]) == tp) or any(k.arg == "topic" and norm(k.value) == tp for k in c.keywords)
    # qos / payload may travel through a dict literal **params
    qos_ok = any(k.arg == "qos" and norm(k.value) == qp for k in c.keywords)
    payload_ok = any(k.arg == "payload" and norm(k.value) == pp for k in c.keywords) or (len(c.args) > 1 and norm(c.args[1]) == pp)
    def dict_entries(e, cond, depth=0):
        """(key, value, condition text | None) of a dict display, with `**{...}`, `**(A if t else B)` and locals bound
        once written out; None when the expression is not of these forms."""
        if depth > 4:
            return None
        if isinstance(e, ast.Name):
            la_ = ctx.I.local_assigns(pub).get(e.id) or []
            if len(la_) == 1 and isinstance(la_[0], ast.expr):
                return dict_entries(la_[0], cond, depth + 1)
            outs = []
            for v_ in la_:
                if not isinstance(v_, ast.expr):
                    return None
                sub_ = dict_entries(v_, cond, depth + 1)
                if sub_ is None:
                    return None
                outs += sub_
            return outs
        if isinstance(e, ast.IfExp):
            a_ = dict_entries(e.body, norm(e.test) if cond is None else f"{cond} and {norm(e.test)}", depth + 1)
            b_ = dict_entries(e.orelse, f"not {norm(e.test)}" if cond is None else f"{cond} and not {norm(e.test)}", depth + 1)
            return None if a_ is None or b_ is None else a_ + b_
        if isinstance(e, ast.Dict):
            outs = []
            for dk, dv in zip(e.keys, e.values):
                if dk is None:
                    sub_ = dict_entries(dv, cond, depth + 1)
                    if sub_ is None:
                        return None
                    outs += sub_
                elif isinstance(dk, ast.Constant):
                    outs.append((dk.value, dv, cond))
                else:
                    return None
            return outs
        return None

    for k in c.keywords:
        if k.arg is None:
            for dk_, dv_, cond_ in dict_entries(k.value, None) or []:
                if dk_ == "qos" and norm(dv_) == qp and cond_ is None:
                    qos_ok = True
                # {"payload": payload} if payload else {}: the payload travels whenever it is not empty
                if dk_ == "payload" and norm(dv_) == pp and cond_ in (None, pp):
                    payload_ok = True
        if k.arg is None and isinstance(k.value, ast.Name):
            for n in ctx.own_nodes(pub):
                if isinstance(n, ast.Assign) and isinstance(n.targets[0], ast.Subscript) and norm(n.targets[0].value) == k.value.id and isinstance(n.targets[0].slice, ast.Constant):
                    if n.targets[0].slice.value == "payload" and norm(n.value) == pp:
                        # must be unconditional or under `if payload`
                        par = ctx.prog.parents.get(n)
                        if par is pub.node or (isinstance(par, ast.If) and norm(par.test) == pp):
                            payload_ok = True
                    if n.targets[0].slice.value == "qos" and norm(n.value) == qp:
                        qos_ok = True
    if topic_ok and qos_ok and payload_ok and isinstance(ctx.prog.parents.get(c), ast.Await):
        chk.ok(rule, key, "client.publish(topic, qos=qos, payload=payload (omitted only when empty))", ctx.loc(pub, c))
    else:
        miss = [n for n, o in (("topic", topic_ok), ("qos", qos_ok), ("payload", payload_ok)) if not o]
        chk.refute(rule, key, f"client.publish does not receive {', '.join(miss) or 'an awaited call'} unchanged", ctx.loc(pub, c))
    # ---- the mapping code keeps no per-message state: options handed to publish are built fresh on every call
    chk.instance(rule)
    key = f"{pub.fq}::fresh-options"
    aliases = {}
    for n in ctx.own_nodes(pub):
        if isinstance(n, (ast.Assign, ast.AnnAssign)):
            tg = n.targets[0] if isinstance(n, ast.Assign) else n.target
            if isinstance(tg, ast.Name) and n.value is not None and isinstance(n.value, ast.Attribute) and norm(n.value).startswith("self."):
                aliases[tg.id] = norm(n.value)
    stale = None
    for n in ctx.own_nodes(pub):
        targets = n.targets if isinstance(n, ast.Assign) else [n.target] if isinstance(n, (ast.AugAssign, ast.AnnAssign)) else []
        for tg in targets:
            base = tg
            while isinstance(base, ast.Subscript):
                base = base.value
            if isinstance(tg, ast.Subscript) and isinstance(base, ast.Name) and base.id in aliases:
                stale = (n, f"{norm(tg)} (an alias of {aliases[base.id]})")
            elif isinstance(tg, (ast.Subscript, ast.Attribute)) and norm(base).startswith("self."):
                stale = (n, norm(tg))
        if isinstance(n, ast.Call) and isinstance(n.func, ast.Attribute) and n.func.attr in ("update", "setdefault", "pop", "clear") and (norm(n.func.value).startswith("self.") or (isinstance(n.func.value, ast.Name) and n.func.value.id in aliases)):
            stale = (n, norm(n.func.value))
    used_alias = [k.value.id for k in c.keywords if k.arg is None and isinstance(k.value, ast.Name) and k.value.id in aliases]
    if stale is not None:
        chk.refute(rule, key, f"_publish writes `{stale[1]}`: publish options live in the transport object and are mutated per message, so a value set for one write (a payload) leaks into the next write that omits it", ctx.loc(pub, stale[0]))
    elif used_alias:
        chk.refute(rule, key, f"publish options are the shared object {aliases[used_alias[0]]}, not built per call", ctx.loc(pub, c))
    else:
        chk.ok(rule, key, "publish options are built from the arguments on every call", ctx.loc(pub, c), sample=False)
    # ---- subscriptions
    subscriptions(ctx, chk, rule)


def show(t) -> str:
    k = t[0]
    if k == "const":
        return repr(t[1])
    if k == "param":
        return t[1]
    if k == "attr":
        return t[1]
    if k in ("split", "rsplit"):
        return f"{show(t[1])}.{k}({show(t[2]) if t[2] else ''}{', ' + show(t[3]) if t[3] else ''})"
    if k in ("rstrip", "strip", "lstrip"):
        return f"{show(t[1])}.{k}()"
    if k in ("partition", "rpartition"):
        return f"{show(t[1])}.{k}({show(t[2])})"
    if k == "elem":
        return f"{show(t[1])}[{t[2]} of {t[3]}]"
    if k == "slice":
        return f"{show(t[1])}[{t[2] if t[2] is not None else ''}:{t[3] if t[3] is not None else ''}]"
    if k == "index":
        return f"{show(t[1])}[{t[2]}]"
    if k == "join":
        return f"{show(t[1])}.join({show(t[2])})"
    if k == "concat":
        return " + ".join(show(x) for x in t[1])
    if k in ("list", "tuple"):
        return "[" + ", ".join(show(x) for x in t[1]) + "]"
    if k == "listcat":
        return f"{show(t[1])} + {show(t[2])}"
    if k == "int":
        return f"int({show(t[1])})"
    if k == "replace":
        return f"{show(t[1])}.replace({show(t[2])}, {show(t[3])})"
    return str(t)


def _enum_values_of(ctx: Ctx, m, e: ast.expr, depth: int = 0):
    """Values of the enum class an expression denotes: a class name, a module constant bound to one, or
    `get_protocol(<constant version>).<Enum>`."""
    I = ctx.I
    if depth > 4:
        return None
    if isinstance(e, ast.Name):
        d = ctx.prog.resolve_name(m, e.id)
        if d is not None and d.kind == "class" and I.folder.is_enum(d.obj):
            return sorted(I.folder.enum_values(d.obj))
        if d is not None and d.kind == "const":
            return _enum_values_of(ctx, d.module, d.obj, depth + 1)
        return None
    if isinstance(e, ast.Attribute) and isinstance(e.value, ast.Call) and norm(e.value.func).endswith("get_protocol") and len(e.value.args) == 1:
        try:
            ver = I.folder.plain(I.folder.fold(m, e.value.args[0]))
        except Unfoldable:
            return None
        if ver in ctx.versions:
            try:
                return sorted(I.folder.enum_values(I.vclass(ver, e.attr)))
            except Exception:  # noqa: BLE001
                return None
    if isinstance(e, ast.Attribute):
        d = ctx.prog.resolve_expr(m, e)
        if d is not None and d.kind == "class" and I.folder.is_enum(d.obj):
            return sorted(I.folder.enum_values(d.obj))
    return None


def _int_of(ctx: Ctx, m, e: ast.expr):
    if isinstance(e, ast.Constant) and isinstance(e.value, int):
        return e.value
    if isinstance(e, ast.BinOp) and isinstance(e.op, (ast.Add, ast.Sub)):
        a, b = _int_of(ctx, m, e.left), _int_of(ctx, m, e.right)
        if a is None or b is None:
            return None
        return a + b if isinstance(e.op, ast.Add) else a - b
    if isinstance(e, ast.Call) and isinstance(e.func, ast.Name) and e.func.id in ("min", "max", "len") and len(e.args) == 1:
        vals = _enum_values_of(ctx, m, e.args[0])
        if vals:
            return {"min": min(vals), "max": max(vals), "len": len(vals)}[e.func.id]
        return None
    try:
        v = ctx.folder.plain(ctx.folder.fold(m, e))
    except Unfoldable:
        return None
    return v if isinstance(v, int) and not isinstance(v, bool) else None


def generated_subscriptions(ctx: Ctx, chk, rule: str, conn) -> None:
    """Subscriptions generated from the command numbers instead of a literal list:
    self._subscribe(f"{self.in_prefix}/+/+/{c}/+/+", ...) for c in <range / enum>."""
    I = ctx.I
    m = conn.module
    subs = [n for n in ctx.own_nodes(conn) if isinstance(n, ast.Call) and norm(n.func) == "self._subscribe"]
    if len(subs) != 1 or not subs[0].args or not isinstance(subs[0].args[0], ast.JoinedStr):
        raise AnalysisError(f"TOPIC-MAP: subscription shape not recognised in {conn.fq}")
    s_ = subs[0]
    js = s_.args[0]
    parts = js.values
    shape_ok = len(parts) == 4 and isinstance(parts[0], ast.FormattedValue) and norm(parts[0].value) == "self.in_prefix" and isinstance(parts[1], ast.Constant) and parts[1].value == "/+/+/" and isinstance(parts[2], ast.FormattedValue) and isinstance(parts[2].value, ast.Name) and isinstance(parts[3], ast.Constant) and parts[3].value == "/+/+"
    if not shape_ok:
        raise AnalysisError(f"TOPIC-MAP: subscription topic `{norm(js)[:60]}` not recognised")
    var = parts[2].value.id
    binders = [n for n in ctx.own_nodes(conn) if isinstance(n, (ast.For, ast.comprehension)) and isinstance(n.target, ast.Name) and n.target.id == var]
    if len(binders) != 1:
        raise AnalysisError("TOPIC-MAP: the command variable of the subscription topic is not bound by one loop")
    it = binders[0].iter
    vals = None
    if isinstance(it, ast.Call) and isinstance(it.func, ast.Name) and it.func.id == "range" and 1 <= len(it.args) <= 2:
        b = [_int_of(ctx, m, a) for a in it.args]
        if all(x is not None for x in b):
            vals = list(range(*b))
    else:
        ev = _enum_values_of(ctx, m, it)
        if ev is not None:
            vals = ev
        elif isinstance(it, ast.Call) and isinstance(it.func, ast.Name) and it.func.id in ("list", "tuple", "sorted") and len(it.args) == 1:
            vals = _enum_values_of(ctx, m, it.args[0])
    if vals is None:
        raise AnalysisError(f"TOPIC-MAP: cannot enumerate `{norm(it)[:60]}`")
    commands = sorted(I.folder.enum_values(I.vclass(ctx.versions[0], "Command")))
    chk.instance(rule)
    key = f"{conn.fq}::subscribed-commands"
    if sorted(vals) == commands and not (isinstance(binders[0], ast.comprehension) and binders[0].ifs):
        chk.ok(rule, key, f"one subscription '<in-prefix>/+/+/<c>/+/+' for c in {commands}", ctx.loc(conn, s_))
    else:
        chk.refute(rule, key, f"subscriptions are generated for the commands {sorted(vals)}{' (filtered)' if isinstance(binders[0], ast.comprehension) and binders[0].ifs else ''}, the statement requires exactly {commands}: messages of a missing command are never received", ctx.loc(conn, s_))
    chk.instance(rule)
    key = f"{conn.fq}::subscribe-loop"
    parents = ctx.prog.parents
    cond = False
    cur = s_
    while cur in parents and cur is not conn.node:
        par = parents[cur]
        if isinstance(par, (ast.If, ast.IfExp, ast.While, ast.ExceptHandler)):
            cond = True
        cur = par
    awaited = isinstance(parents.get(s_), ast.Await)
    if not awaited:
        gathers = [n for n in ctx.own_nodes(conn) if isinstance(n, ast.Await) and isinstance(n.value, ast.Call) and norm(n.value.func).endswith("gather")]
        lst = None
        cur = s_
        while cur in parents and cur is not conn.node:
            par = parents[cur]
            if isinstance(par, ast.Call) and isinstance(par.func, ast.Attribute) and par.func.attr == "append":
                lst = norm(par.func.value)
                break
            if isinstance(par, ast.Assign) and len(par.targets) == 1 and isinstance(par.targets[0], ast.Name):
                lst = par.targets[0].id
                break
            cur = par
        awaited = bool(lst) and any(any(isinstance(a_, ast.Starred) and norm(a_.value) == lst for a_ in g_.value.args) for g_ in gathers)
    if not cond and awaited:
        chk.ok(rule, key, "every generated topic is subscribed under the in-prefix and awaited", ctx.loc(conn, s_))
    else:
        chk.refute(rule, key, f"subscription loop: {'conditional subscribe' if cond else 'subscribe coroutine is never awaited'}", ctx.loc(conn, s_))


def subscriptions(ctx: Ctx, chk, rule: str) -> None:
    mt = ctx.cls(MT)
    conn = mt.find_method("connect")
    I = ctx.I
    # 1. shape-independent reading: interpret connect (and the helpers / generators it calls) over constants and the
    #    symbolic in-prefix, collecting every self._subscribe(topic, qos) and whether its coroutine is awaited
    from . import subeval

    try:
        toks = subeval.SubEval(ctx, mt).run(conn)
    except subeval.Unsupported as err:
        toks = None
        chk.notes["subscriptions_partial_evaluation"] = f"not applicable ({err}); shape-based reading used"
    except subeval._PyExc as err:
        toks = None
        chk.notes["subscriptions_partial_evaluation"] = f"connect raises {err.name} on its straight path; shape-based reading used"
    if toks is not None:
        commands = sorted(I.folder.enum_values(I.vclass(ctx.versions[0], "Command")))
        want = {subeval.PREFIX + f"/+/+/{c}/+/+" for c in commands}
        got = {t.topic for t in toks}
        show_ = lambda xs: sorted(x.replace(subeval.PREFIX, "<in-prefix>") for x in xs)  # noqa: E731
        chk.instance(rule)
        key = f"{conn.fq}::subscribed-topics"
        where = ctx.loc(conn, conn.node)
        if got == want:
            chk.ok(rule, key, f"connect subscribes exactly '<in-prefix>/+/+/<c>/+/+' for c in {commands} ({len(toks)} subscribe call(s) evaluated)", where)
        else:
            chk.refute(rule, key, f"connect subscribes {show_(got)}; the statement requires exactly {show_(want)}: messages of a missing command are never received / foreign topics are", where)
        chk.instance(rule)
        key = f"{conn.fq}::subscribe-loop"
        lost = [t for t in toks if not t.awaited]
        if not lost:
            chk.ok(rule, key, "every subscription coroutine is awaited (directly or through gather)", where)
        else:
            chk.refute(rule, key, f"subscription loop: subscribe coroutine is never awaited ({show_(t.topic for t in lost)[:2]}…): the subscription is never made", where)
        chk.notes["subscriptions_partial_evaluation"] = f"{len(toks)} subscribe calls evaluated"
        return
    chk.instance(rule)
    # literal topic list
    lists = [(n.targets[0].id, n.value) for n in ctx.own_nodes(conn) if isinstance(n, ast.Assign) and isinstance(n.targets[0], ast.Name) and isinstance(n.value, ast.List) and n.value.elts and all(isinstance(e, ast.Constant) and isinstance(e.value, str) for e in n.value.elts)]
    if not lists:
        generated_subscriptions(ctx, chk, rule, conn)
        return
    if len(lists) != 1:
        raise AnalysisError(f"TOPIC-MAP: subscription list literal not found in {conn.fq}")
    lname, lval = lists[0]
    got = sorted(e.value for e in lval.elts)
    commands = sorted(I.folder.enum_values(I.vclass(ctx.versions[0], "Command")))
    want = sorted(f"/+/+/{c}/+/+" for c in commands)
    key = f"{conn.fq}::{lname}"
    if got == want:
        chk.ok(rule, key, f"partial topics = '/+/+/<c>/+/+' for c in {commands}", ctx.loc(conn, lval))
    else:
        chk.refute(rule, key, f"subscribed partial topics {got} differ from {want}: messages of a missing command are never received / foreign topics are", ctx.loc(conn, lval))
    # every element is subscribed under the in-prefix: the topic handed to self._subscribe is f"{self.in_prefix}{p}"
    # with p ranging over the literal list (for loop, comprehension or generator chain), unconditionally, and awaited
    chk.instance(rule)
    key = f"{conn.fq}::subscribe-loop"
    subs = [n for n in ctx.own_nodes(conn) if isinstance(n, ast.Call) and norm(n.func) == "self._subscribe"]
    parents = ctx.prog.parents
    la_all = I.local_assigns(conn)
    binders = {}
    for n in ctx.own_nodes(conn):
        if isinstance(n, (ast.For, ast.comprehension)) and isinstance(n.target, ast.Name):
            binders.setdefault(n.target.id, []).append(n)

    filtered = []

    def subst(e, depth=0):
        if depth > 10:
            return e
        if isinstance(e, ast.Name):
            bs = binders.get(e.id) or []
            if len(bs) == 1 and not [v for v in (la_all.get(e.id) or []) if v is not None]:
                b_ = bs[0]
                if isinstance(b_, ast.comprehension) and b_.ifs:
                    filtered.append(b_)
                it = b_.iter
                if isinstance(it, ast.Name):
                    if it.id == lname:
                        return ast.Name(id="<PARTIAL>", ctx=ast.Load())
                    vs = la_all.get(it.id) or []
                    it = vs[0] if len(vs) == 1 and isinstance(vs[0], ast.expr) else it
                if isinstance(it, (ast.GeneratorExp, ast.ListComp)) and len(it.generators) == 1:
                    if it.generators[0].ifs:
                        filtered.append(it.generators[0])
                    return subst(it.elt, depth + 1)
                return e
            vs = la_all.get(e.id) or []
            if len(vs) == 1 and isinstance(vs[0], ast.expr) and not bs:
                return subst(vs[0], depth + 1)
            return e
        if isinstance(e, ast.JoinedStr):
            return ast.JoinedStr(values=[ast.FormattedValue(value=subst(v.value, depth + 1), conversion=v.conversion, format_spec=v.format_spec) if isinstance(v, ast.FormattedValue) else v for v in e.values])
        return e

    ok = False
    why = "no self._subscribe call in connect"
    lp_loc = subs[0] if subs else conn.node
    if len(subs) == 1:
        s = subs[0]
        cond = False
        cur = s
        while cur in parents and cur is not conn.node:
            par = parents[cur]
            if isinstance(par, (ast.If, ast.IfExp, ast.While)) or isinstance(par, ast.ExceptHandler) or (isinstance(par, ast.Try) and any(cur is x for x in par.orelse)):
                cond = True
            cur = par
        arg = s.args[0] if s.args else None
        t = subst(arg) if arg is not None else None
        topic_ok = isinstance(t, ast.JoinedStr) and len(t.values) == 2 and all(isinstance(v, ast.FormattedValue) for v in t.values) and norm(t.values[0].value) == "self.in_prefix" and norm(t.values[1].value) == "<PARTIAL>"
        if filtered:
            cond = True
        # awaited: directly, or collected (list / comprehension / append) and gathered
        awaited = isinstance(parents.get(s), ast.Await)
        if not awaited:
            gathers = [n for n in ctx.own_nodes(conn) if isinstance(n, ast.Await) and isinstance(n.value, ast.Call) and norm(n.value.func).endswith("gather")]
            lst = None
            cur = s
            while cur in parents and cur is not conn.node:
                par = parents[cur]
                if isinstance(par, ast.Call) and isinstance(par.func, ast.Attribute) and par.func.attr == "append" and any(a is cur for a in par.args):
                    lst = norm(par.func.value)
                    break
                if isinstance(par, ast.Assign) and len(par.targets) == 1 and isinstance(par.targets[0], ast.Name) and isinstance(par.value, (ast.ListComp, ast.List)):
                    lst = par.targets[0].id
                    break
                if isinstance(par, ast.Starred) or (isinstance(par, ast.Call) and norm(par.func).endswith("gather")):
                    lst = "<inline>"
                    break
                cur = par
            if lst == "<inline>":
                awaited = any(any(x is s for x in ast.walk(g_)) for g_ in gathers)
            elif lst:
                awaited = any(any(isinstance(a_, ast.Starred) and norm(a_.value) == lst for a_ in g_.value.args) for g_ in gathers)
        ok = (not cond) and topic_ok and awaited
        why = "conditional subscribe" if cond else "topic is not in_prefix + partial topic" if not topic_ok else "subscribe coroutine is never awaited" if not awaited else ""
    elif len(subs) > 1:
        why = f"{len(subs)} self._subscribe call sites"
    if ok:
        chk.ok(rule, key, "every partial topic is subscribed under the in-prefix and awaited", ctx.loc(conn, lp_loc))
    else:
        chk.refute(rule, key, f"subscription loop: {why}", ctx.loc(conn, lp_loc))


# ---------------------------------------------------------------------------


def fifo1(ctx: Ctx, chk) -> None:
    rule = "FIFO-1"
    chk.rule(rule, "one unbounded asyncio.Queue; _receive and _receive_error each put exactly one item (message / error), read takes exactly one per call and returns the message or raises the error; nothing else touches the queue")
    prog = ctx.prog
    mt = ctx.cls(MT)
    init0 = mt.find_method("__init__")
    init = ctx.inl(init0)  # the constructor chain written out: the queue may be created by a base class of the transport
    ctor_chain = {init0.fq} | {c_.fq + ".__init__" for c_ in mt.repo_mro()}
    # constructor
    chk.instance(rule)
    qnames = ctx.eea().queue_attrs()  # the private name(s) the queue goes by (the attribute, delegating properties)
    qs = [n for n in ctx.own_nodes(init) if isinstance(n, (ast.Assign, ast.AnnAssign)) and norm(n.targets[0] if isinstance(n, ast.Assign) else n.target) in {f"self.{q}" for q in qnames}]
    if not qs:
        # a queue object created in the class body is ONE queue shared by every transport instance
        for c_ in mt.repo_mro():
            if "_incoming_messages" in c_.attrs:
                chk.refute(rule, f"{c_.fq}._incoming_messages::per-instance", f"the incoming queue is created in the class body of {c_.name} (`{norm(c_.attrs['_incoming_messages'])[:50]}`) and not per instance: all MQTT transports of the process share one queue, so a read on one transport returns (or steals) the messages and errors of another", f"{c_.module.relpath}:{c_.attrs['_incoming_messages'].lineno}")
                return
    if len(qs) != 1 or not isinstance(qs[0].value, ast.Call):
        raise AnalysisError("FIFO-1: queue construction not found")
    qc = qs[0].value
    names = callee_names(ctx, init, qc)
    if ("asyncio.queues.Queue" in names or "asyncio.Queue" in names) and not qc.args and not qc.keywords:
        chk.ok(rule, fkey(init, qc), "asyncio.Queue() - FIFO, unbounded", ctx.loc(init, qc))
    else:
        chk.refute(rule, fkey(init, qc), f"`{norm(qc)}` is not an unbounded FIFO asyncio.Queue (ordering or put_nowait totality is lost)", ctx.loc(init, qc))
    # the queue object lives as long as the transport: a read suspended in get() waits on the object it was given, so
    # rebinding the attribute later (e.g. "start with an empty queue" in connect) leaves that reader waiting forever
    # on a queue nothing is put into any more, and drops what was queued but not yet read
    for g_ in prog.all_functions():
        if g_ is init or g_.fq in ctor_chain or not g_.module.name.startswith("aiomysensors"):
            continue
        for n_ in ctx.own_nodes(g_):
            tg_ = n_.targets if isinstance(n_, ast.Assign) else [n_.target] if isinstance(n_, (ast.AnnAssign, ast.AugAssign)) else []
            for t_ in tg_:
                if isinstance(t_, ast.Attribute) and t_.attr in qnames:
                    if g_.is_setter() and g_.name in qnames and isinstance(n_, ast.Assign) and isinstance(n_.value, ast.Name) and n_.value.id in g_.positional_params[1:]:
                        continue  # the setter of a delegating property: runs only where someone assigns the property (judged there)
                    chk.instance(rule)
                    chk.refute(rule, fkey(g_, n_) + "::queue-rebound", f"`{norm(n_)[:70]}` in {g_.qualname} replaces the receive queue after construction: a read() already waiting in get() keeps waiting on the old queue and is never served again (silent deafness), and messages / errors still queued there are lost", ctx.loc(g_, n_))
    # all queue operations in the package
    allowed = {"_receive": ("put_nowait",), "_receive_error": ("put_nowait",), "read": ("get", "task_done")}
    ANCH_Q = ("_receive", "_receive_error", "_parse_mqtt_to_message", "_parse_message_to_mqtt", "_connect", "_disconnect", "_subscribe", "_publish", "_handle_incoming")
    # a private helper of the transport that only the three queue owners call is part of them (judged written out)
    via_helper: dict = {}
    for fname in allowed:
        f0 = mt.find_method(fname)
        if f0 is None:
            raise AnalysisError(f"anchor vanished: MQTTTransport.{fname}")
        fi = ctx.inl(f0, lambda h: h.name not in ANCH_Q)
        for hq in getattr(fi, "inlined", []):
            via_helper.setdefault(hq, set()).add(f0)
    helper_ok = {}
    for hq, owners in via_helper.items():
        hname = hq.rsplit(".", 1)[-1]
        callers = [g_ for g_ in prog.all_functions() if g_.qualname != hq and any(isinstance(x, ast.Attribute) and x.attr == hname for x in ctx.own_nodes(g_))]
        helper_ok[hq] = all(g_ in owners for g_ in callers)
    ops = []
    for f in prog.all_functions():
        for n in ctx.own_nodes(f):
            if isinstance(n, ast.Call):
                fact = prog.call_fact(f.module, n)
                if fact and fact[0] and fact[0].startswith("asyncio.queues.Queue."):
                    op = fact[0].rsplit(".", 1)[-1]
                    if helper_ok.get(f.qualname):
                        for owner in via_helper[f.qualname]:
                            ops.append((owner, n, op))
                    else:
                        ops.append((f, n, op))
    for f, n, op in ops:
        chk.instance(rule)
        key = fkey(f, n)
        if f.cls is not None and f.cls in mt.repo_mro() and f.name in allowed and op in allowed[f.name]:
            chk.ok(rule, key, f"{f.name}: {op}", ctx.loc(f, n), sample=False)
        else:
            chk.refute(rule, key, f"queue operation `{norm(n)}` in {f.qualname}: only _receive/_receive_error may put and read may get", ctx.loc(f, n))
    for fname, op, count in (("_receive", "put_nowait", 1), ("_receive_error", "put_nowait", 1), ("read", "get", 1)):
        chk.instance(rule)
        f = mt.find_method(fname)
        mine = [n for g, n, o in ops if g is f and o == op]
        key = f"{f.fq}::{op}-count"
        in_loop = any(_in_loop(ctx, f, n) for n in mine)
        if len(mine) == count and not in_loop and not any(_conditional(ctx, f, n) for n in mine):
            chk.ok(rule, key, f"exactly one unconditional {op}", ctx.loc(f, f.node), sample=False)
        else:
            chk.refute(rule, key, f"{fname} performs {len(mine)} {op}(){' in a loop' if in_loop else ''}{' conditionally' if mine and not in_loop and len(mine) == count else ''}: an item is lost or duplicated", ctx.loc(f, f.node))
    # payloads of the items
    rcv = mt.find_method("_receive")
    rerr = mt.find_method("_receive_error")
    rd = mt.find_method("read")
    chk.instance(rule)
    ok, why = _item_shape(ctx, rcv, "MESSAGE", "message", ("call", "self._parse_mqtt_to_message"))
    (chk.ok if ok else chk.refute)(rule, f"{rcv.fq}::item", why if not ok else "puts ReceivedMessage(MESSAGE, message=<parsed line>)", ctx.loc(rcv, rcv.node))
    chk.instance(rule)
    ok, why = _item_shape(ctx, rerr, "ERROR", "error", ("param", rerr.positional_params[1]))
    (chk.ok if ok else chk.refute)(rule, f"{rerr.fq}::item", why if not ok else "puts ReceivedMessage(ERROR, error=<the error>)", ctx.loc(rerr, rerr.node))
    # read: returns .message / raises .error of the item it took
    chk.instance(rule)
    key = f"{rd.fq}::delivery"
    from ..prov import Canon

    rd0 = rd
    # the unwrapping of the dequeued item may live in a private helper: judged written out, locals looked through
    rd = ctx.inl(rd, lambda h: h.name not in ("_receive", "_receive_error", "_parse_mqtt_to_message", "_parse_message_to_mqtt", "_connect", "_disconnect", "_subscribe", "_publish", "_handle_incoming"))
    la = ctx.I.local_assigns(rd)
    cnr = Canon(ctx.I, rd, "")
    got_names = [k for k, v in la.items() if len(v) == 1 and isinstance(v[0], ast.Await) and isinstance(v[0].value, ast.Call) and isinstance(v[0].value.func, ast.Attribute) and v[0].value.func.attr == "get" and norm(v[0].value.func.value) in {f"self.{q}" for q in qnames}]
    ok = False
    if len(got_names) == 1:
        item = got_names[0]
        rets = [n for n in ctx.own_nodes(rd) if isinstance(n, ast.Return) and n.value is not None]
        raises = [n for n in ctx.own_nodes(rd) if isinstance(n, ast.Raise) and n.exc is not None and not isinstance(n.exc, ast.Call)]
        want_m = cnr.canon(ast.parse(f"{item}.message", mode="eval").body)
        want_e = cnr.canon(ast.parse(f"{item}.error", mode="eval").body)
        ok = bool(rets) and all(cnr.canon(r.value) == want_m for r in rets) and bool(raises) and all(cnr.canon(r.exc) == want_e for r in raises)
    rd = rd0
    if ok:
        chk.ok(rule, key, "returns item.message, raises item.error", ctx.loc(rd, rd.node))
    else:
        chk.refute(rule, key, "read() does not deliver exactly the dequeued item (return its message / raise its error)", ctx.loc(rd, rd.node))


def _in_loop(ctx, f, n) -> bool:
    cur = n
    while cur in ctx.prog.parents and cur is not f.node:
        cur = ctx.prog.parents[cur]
        if isinstance(cur, (ast.For, ast.While, ast.AsyncFor)):
            return True
    return False


def _conditional(ctx, f, n) -> bool:
    cur = n
    while cur in ctx.prog.parents and cur is not f.node:
        par = ctx.prog.parents[cur]
        if isinstance(par, (ast.If, ast.ExceptHandler, ast.IfExp)) and cur is not getattr(par, "test", None):
            return True
        if isinstance(par, ast.Try) and cur in par.handlers:
            return True
        cur = par
    return False


def _item_shape(ctx, f, mtype: str, field: str, want) -> tuple[bool, str]:
    f = ctx.inl(f, lambda h: h.name not in ("_receive", "_receive_error", "_parse_mqtt_to_message", "_parse_message_to_mqtt", "_connect", "_disconnect", "_subscribe", "_publish", "_handle_incoming"))
    puts = [n for n in ctx.own_nodes(f) if isinstance(n, ast.Call) and norm(n.func).endswith("put_nowait")]
    if len(puts) != 1 or len(puts[0].args) != 1:
        return False, f"{f.qualname}: put_nowait shape not recognised"
    a = puts[0].args[0]
    la = ctx.I.local_assigns(f)
    if isinstance(a, ast.Name):
        v = la.get(a.id) or []
        if len(v) != 1 or not isinstance(v[0], ast.Call):
            return False, f"{f.qualname}: queued item `{a.id}` is not a single constructor result"
        a = v[0]
    if not (isinstance(a, ast.Call) and norm(a.func) == "ReceivedMessage"):
        return False, f"{f.qualname}: queued item is `{norm(a)[:60]}`, not a ReceivedMessage"
    def deref(e):
        """Look through locals bound once (also the parameter bindings of a helper that was written out)."""
        for _ in range(6):
            if isinstance(e, ast.Name) and e.id not in f.params:
                w_ = la.get(e.id) or []
                if len(w_) == 1 and isinstance(w_[0], ast.expr):
                    e = w_[0]
                    continue
            break
        return e

    kws = {k.arg: k.value for k in a.keywords}
    if not norm(deref(kws.get("message_type", ast.Constant(None)))).endswith(f".{mtype}"):
        return False, f"{f.qualname}: item is not tagged {mtype}"
    v = kws.get(field)
    if v is None:
        return False, f"{f.qualname}: item carries no {field}"
    v = deref(v)
    if want[0] == "param":
        ok = isinstance(v, ast.Name) and v.id == want[1]
    else:
        ok = isinstance(v, ast.Call) and norm(v.func) == want[1] and [norm(x) for x in v.args] == f.positional_params[1:3]
    return (ok, "" if ok else f"{f.qualname}: {field}= `{norm(v)[:60]}` is not the received {'error' if want[0] == 'param' else 'topic/payload mapped by _parse_mqtt_to_message'}")


def task_esc(ctx: Ctx, chk) -> None:
    rule = "TASK-ESC"
    chk.rule(rule, "nothing but cancellation escapes the receive task: every failure while receiving is forwarded to read() through _receive_error (a dead receiver is silent deafness)")
    eea = ctx.eea()
    mc = ctx.cls(MC)
    f = mc.find_method("_handle_incoming")
    if f is None:
        raise AnalysisError("anchor vanished: MQTTClient._handle_incoming")
    escape_rule(ctx, chk, rule, [("MQTTClient._handle_incoming", eea.escapes_of(f, None))], lambda exc, site: False, eea)
    # every handler forwards (handlers of the loop and of per-message helpers the loop calls)
    ANCH = ("_receive", "_receive_error", "_parse_mqtt_to_message", "_connect", "_disconnect", "_subscribe", "_publish")
    scope = [f]
    for x in ctx.own_nodes(f):
        if isinstance(x, ast.Call) and isinstance(x.func, ast.Attribute) and isinstance(x.func.value, ast.Name) and x.func.value.id == "self" and x.func.attr.startswith("_") and x.func.attr not in ANCH:
            h = mc.find_method(x.func.attr)
            if h is not None and h not in scope:
                scope.append(h)
    n = 0
    for f_, node in [(g_, nd) for g_ in scope for nd in ctx.own_nodes(g_)]:
        if isinstance(node, ast.ExceptHandler):
            n += 1
            chk.instance(rule)
            key = fkey(f_, node.type) if node.type is not None else f"{f_.fq}::except"
            fw = [x for b in node.body for x in ast.walk(b) if isinstance(x, ast.Call) and norm(x.func) == "self._receive_error"]
            rr = [x for b in node.body for x in ast.walk(b) if isinstance(x, ast.Raise)]
            if fw and not rr:
                arg = fw[0].args[0] if fw[0].args else None
                if isinstance(arg, ast.Name):  # `error = TransportFailedError(...)` ... `self._receive_error(error)`
                    la_ = [v for v in (ctx.I.local_assigns(f_).get(arg.id) or [])]
                    if len(la_) == 1 and isinstance(la_[0], ast.Call):
                        arg = la_[0]
                cls = ctx.eea().exc_class_of(arg.func, _frame(ctx, f_)) if isinstance(arg, ast.Call) else None
                if cls and eea.issub(cls, TERR):
                    chk.ok(rule, key, f"forwarded as {short(cls)}", ctx.loc(f_, node))
                else:
                    chk.refute(rule, key, f"the forwarded error `{norm(arg)[:60] if arg is not None else '?'}` is not a TransportError", ctx.loc(f_, node))
            else:
                chk.refute(rule, key, "a receive failure is handled without forwarding it to read(): reception ends silently", ctx.loc(f_, node))
    chk.floor(rule, "handlers in the receive task", n, 1)
    # the loop feeds _receive with topic and decoded payload
    chk.instance(rule)
    rc = [x for g_ in scope for x in ctx.own_nodes(g_) if isinstance(x, ast.Call) and norm(x.func) == "self._receive"]
    key = f"{f.fq}::self._receive"
    if len(rc) == 1 and len(rc[0].args) == 2 and norm(rc[0].args[0]).endswith(".topic.value"):
        chk.ok(rule, key, "each broker message is forwarded once with its topic", ctx.loc(f, rc[0]))
    else:
        chk.refute(rule, key, "the receive loop does not forward each broker message (topic, decoded payload) exactly once", ctx.loc(f, f.node))


def _frame(ctx, f):
    from ..interp import Frame

    return Frame(ctx.I.make_callee(f, f.cls), None)


def eea_mqtt(ctx: Ctx, chk) -> None:
    rule = "EEA-MQTT"
    chk.rule(rule, "read/write/connect of the MQTT transport raise only TransportError subclasses (connected typestate); disconnect after connect lets nothing escape")
    eea = ctx.eea()
    mt = ctx.cls(MT)
    entries = []
    for name in ("connect", "read", "write"):
        f = mt.find_method(name)
        entries.append((f"MQTTTransport.{name}", eea.escapes_of(f, None)))
    escape_rule(ctx, chk, rule, entries, lambda exc, site: eea.issub(exc, TERR), eea)
    f = mt.find_method("disconnect")
    escape_rule(ctx, chk, rule, [("MQTTTransport.disconnect", eea.escapes_of(f, None))], lambda exc, site: False, eea)
    chk.floor(rule, "entry points", 4, 4)


def thorough(ctx: Ctx, chk) -> None:
    from .common import prune_diff

    entries = [(ctx.cls(MT).find_method(n), None) for n in ("connect", "read", "write", "disconnect")] + [(ctx.cls(MC).find_method("_handle_incoming"), None)]
    prune_diff(ctx, chk, entries)


def prefix_identity(ctx: Ctx, chk) -> None:
    rule = "PREFIX-ID"
    chk.rule(rule, "the topic prefixes are used exactly as configured: `self.in_prefix` / `self.out_prefix` are stored only by a constructor, from the constructor parameter of the same name unchanged, and a subclass hands its own parameters on unchanged - in MQTT `/home/gw` and `home/gw` (or `gw/`) are different topics, so a normalised prefix subscribes and publishes somewhere else than `<prefix>/node/child/command/ack/type`")
    from ..prov import Canon

    mt = ctx.cls(MT)
    n = 0
    classes = [c for c in ctx.prog.all_classes() if c is mt or mt in c.repo_mro()] if hasattr(ctx.prog, "all_classes") else None
    if classes is None:
        classes = [c for m in ctx.prog.modules.values() for c in m.classes.values() if c is mt or mt in c.repo_mro()]
    # the classes the constructor of MQTTTransport delegates to (a base class that owns the prefixes)
    for b in mt.repo_mro():
        if b not in classes:
            classes.append(b)
    for c in classes:
        for fl in c.methods.values():
            for f in fl:
                cn = Canon(ctx.I, f)
                for node in ctx.own_nodes(f):
                    # stores
                    if isinstance(node, (ast.Assign, ast.AnnAssign, ast.AugAssign)):
                        tgts = node.targets if isinstance(node, ast.Assign) else [node.target]
                        for t in tgts:
                            for x in ast.walk(t):
                                if isinstance(x, ast.Attribute) and x.attr in ("in_prefix", "out_prefix") and isinstance(x.ctx, ast.Store):
                                    n += 1
                                    chk.instance(rule)
                                    key = f"{f.fq}::store::{x.attr}"
                                    val = cn.canon(node.value) if isinstance(node, (ast.Assign, ast.AnnAssign)) and node.value is not None and t is x else "?"
                                    if f.name != "__init__" and f.name != "__post_init__":
                                        chk.refute(rule, key, f"{f.qualname} changes the {x.attr} of a transport after construction (`{norm(node)[:70]}`): subscriptions made before and topics published after no longer use the same prefix", ctx.loc(f, node))
                                    elif val == x.attr and x.attr in f.params:
                                        chk.ok(rule, key, f"self.{x.attr} = {x.attr} (the constructor parameter, unchanged)", ctx.loc(f, node))
                                    else:
                                        chk.refute(rule, key, f"`{norm(node)[:80]}` stores `{val[:60]}`, not the configured prefix itself: a prefix is an opaque topic prefix (a leading or trailing '/' is a topic level of its own), so the transport subscribes to and publishes under topics other than `<prefix>/node/child/command/ack/type` for the prefixes the expression changes", ctx.loc(f, node))
                    # delegation to the base constructor
                    if isinstance(node, ast.Call) and isinstance(node.func, ast.Attribute) and node.func.attr == "__init__" and f.name == "__init__":
                        base_init = None
                        for b in c.repo_mro()[1:]:
                            bi = b.find_method("__init__") if hasattr(b, "find_method") else None
                            if bi is not None and bi.cls is b:
                                base_init = bi
                                break
                        if base_init is None or not ({"in_prefix", "out_prefix"} & set(base_init.params)):
                            continue
                        bparams = [p for p in base_init.positional_params if p not in ("self", "cls")]
                        args = node.args[1:] if isinstance(node.func.value, ast.Name) and node.func.value.id != "super" and node.args and isinstance(node.args[0], ast.Name) and node.args[0].id == "self" else node.args
                        bound = dict(zip(bparams, args))
                        bound.update({kw.arg: kw.value for kw in node.keywords if kw.arg})
                        for pname in ("in_prefix", "out_prefix"):
                            if pname not in base_init.params:
                                continue
                            n += 1
                            chk.instance(rule)
                            key = f"{f.fq}::delegate::{pname}"
                            if pname not in bound:
                                chk.refute(rule, key, f"`{norm(node)[:70]}` does not hand the configured {pname} to the base constructor: the default prefix is used instead", ctx.loc(f, node))
                                continue
                            val = cn.canon(bound[pname])
                            if val == pname and pname in f.params:
                                chk.ok(rule, key, f"{pname}={pname} handed on unchanged", ctx.loc(f, node), sample=False)
                            else:
                                chk.refute(rule, key, f"`{norm(node)[:70]}` hands `{val[:60]}` on as {pname}, not the configured prefix itself", ctx.loc(f, node))
    chk.floor(rule, "stores / hand-overs of the topic prefixes", n, 4)
