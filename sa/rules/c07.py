"""C07 Sleep buffer: commands for a sleeping node wait for its wake, then go once."""

from __future__ import annotations

import ast

from ..cfg import CFG
from ..interp import Frame
from ..model import AnalysisError, norm
from ..prov import Canon, message_param
from . import sleepbuf as sb, tables
from .common import Ctx, fkey

WAKE = {"2.0": ("I_HEARTBEAT_RESPONSE", 22), "2.1": ("I_HEARTBEAT_RESPONSE", 22), "2.2": ("I_PRE_SLEEP_NOTIFICATION", 32)}


def run(ctx: Ctx, chk) -> None:
    chk.assume("A1", "A3")
    chk.run_rule(park1, ctx)
    chk.run_rule(wake1, ctx)
    chk.run_rule(sleep_mark, ctx)
    chk.run_rule(flush_node, ctx)
    chk.run_rule(flush_once, ctx)
    chk.run_rule(keep1, ctx)
    from . import c08 as _c08

    chk.run_rule(_c08.flush_total, ctx)
    chk.run_rule(sb.buffer_once, ctx)
    chk.run_rule(sb.buffer_plain, ctx)
    chk.run_rule(reply_unbuffered, ctx)
    from . import c12 as _c12

    chk.run_rule(_c12.send_dispatches, ctx)


def reply_unbuffered(ctx: Ctx, chk) -> None:
    """A command parked by the user is replaced only by a newer *user* command: what the handlers send on their own
    account (the value reply of a req, config / time / id replies) never goes through the parking branch."""
    from . import c06
    from .common import OnlyRule

    proxy = OnlyRule(chk, "UNBUF-1", "REPLY-UNBUF", " - sent through the parking branch, a handler's own reply to a sleeping node takes the buffer slot of the command the user parked for that (node, child, type): the user's command is never written at the wake (the old value is)", "the buffer holds user commands only: every gateway.send in handler code passes the literal message_buffer=False (except the single marker-recording send), so a handler's reply can never replace a parked command")
    c06.unbuf1(ctx, proxy)


def keep1(ctx: Ctx, chk) -> None:
    """A parked command must still be there when its node wakes: removals only in the flush, after the write."""
    from . import c08

    c08.write_then_forget(ctx, chk, loss_only=True)


def park1(ctx: Ctx, chk) -> None:
    rule = "PARK-1"
    chk.rule(rule, "in the outgoing set handler every path performs exactly one of: park the message under (node, child, type) by plain assignment (last writer wins), or write the unmodified encoded line; parking is chosen iff a buffer was passed, the destination is a known node and that node is sleeping")
    I = ctx.I
    out_cells = tables.outgoing_cells(ctx)
    done = set()
    for V in ctx.versions:
        cal = out_cells[V].get(("cmd", "set"))
        if cal is None:
            raise AnalysisError(f"PARK-1: no outgoing set handler in {V}")
        f = cal.chain()[-1].func
        if f in done:
            continue
        done.add(f)
        f = ctx.inl(f, lambda h: not h.name.lstrip("_").startswith("handle"))  # a write/park step extracted into a helper
        g = CFG(f.node)
        cn = Canon(I, f)
        msg = message_param(f)
        stores = sb.store_sites(ctx, f, "set_messages")
        writes = [n for n in ctx.own_nodes(f) if isinstance(n, ast.Call) and norm(n.func).endswith("transport.write")]
        # path enumeration: every entry->exit normal path has exactly one event
        store_stmts = {id(sb._stmt(ctx, f, s[0])) for s in stores}
        # refreshing the entry parked under the same key with the new message's payload is a park event too
        refresh = [u for u in sb.inplace_updates(ctx, f, "set_messages") if u[2] == "payload" and isinstance(u[0], ast.Assign) and cn.canon(u[0].value) == "In.payload"]
        store_stmts |= {id(u[0]) for u in refresh}
        write_stmts = {id(sb._stmt(ctx, f, w)) for w in writes}
        paths = _paths(g)
        chk.instance(rule)
        bad = None
        for p in paths:
            ev = [("STORE" if id(x.ast) in store_stmts else "WRITE") for x in p if x.kind == "stmt" and (id(x.ast) in store_stmts or id(x.ast) in write_stmts)]
            # storing an entry and then refreshing its fields is one park event
            if not ev or len(set(ev)) != 1 or (ev[0] == "WRITE" and len(ev) != 1):
                bad = (p, ev)
                break
        key = f"{f.fq}::one-of-park-or-write"
        if bad is None and paths:
            chk.ok(rule, key, f"{len(paths)} paths, each parks or writes exactly once", f.where)
        else:
            p, ev = bad if bad else ([], [])
            chk.refute(rule, key, f"a path through the outgoing set handler performs {ev or 'neither park nor write'} ({' -> '.join(g.path_text(p)[1:5])}): the command is {'both parked and written' if len(ev) > 1 else 'silently dropped'}", f.where)
        # the store
        for st, key_e, val_e in stores:
            chk.instance(rule)
            k = fkey(f, st)
            probs = []
            if not isinstance(st, ast.Assign):
                # setdefault(key, In) followed by a refresh of the existing entry's payload from In still lets the last command win
                par = ctx.prog.parents.get(st)
                bound = par.targets[0].id if isinstance(par, ast.Assign) and len(par.targets) == 1 and isinstance(par.targets[0], ast.Name) else par.target.id if isinstance(par, ast.NamedExpr) else None
                refreshed = isinstance(st, ast.Call) and st.func.attr == "setdefault" and bound is not None and any(u[1] == bound for u in refresh)
                if not refreshed:
                    probs.append(f"`{norm(st)[:60]}` is not a plain assignment: an earlier parked value would win")
            kc = cn.canon(key_e) if key_e is not None else "?"
            if kc != "(In.node_id, In.child_id, In.message_type)":
                probs.append(f"the buffer key is {kc}, not (node, child, type) of the sent message")
            if val_e is None or not sb.is_message_or_copy(cn.canon(val_e)):
                probs.append(f"the parked value is `{norm(val_e) if val_e is not None else '?'}`, not the sent message")
            if probs:
                chk.refute(rule, k, "; ".join(probs), ctx.loc(f, st))
            else:
                chk.ok(rule, k, "set_messages[(In.node_id, In.child_id, In.message_type)] = In", ctx.loc(f, st))
            # condition
            chk.instance(rule)
            snode = g.nodes_of(sb._stmt(ctx, f, st))
            tests = [t for t in g.nodes if t.kind == "test" and all(g.dominates(t, s) for s in snode) and sb.branch_polarity(g, t, snode) is not None]
            # inner tests that only choose between storing and refreshing the entry are not part of the parking decision
            tests = [t for t in tests if "set_messages" not in norm(t.ast) and not any(isinstance(x, ast.Name) and x.id in sb.entry_names(ctx, f, "set_messages") for x in ast.walk(t.ast))]
            k2 = fkey(f, st) + "::condition"
            if len(tests) != 1:
                raise AnalysisError(f"PARK-1: parking condition shape not recognised in {f.fq}")
            t = tests[0]
            te = t.ast
            pol = sb.branch_polarity(g, t, snode)
            # the conjunction that holds on the parking branch, whatever the spelling: `if A and B and C: park`,
            # `if not (A and B and C): write / else: park`, `if not A or not B or not C: write; return / park`
            terms = _conjunction(te, pol)
            if terms is None:
                terms, pol = [te], pol
            else:
                pol = True
            got = sorted(cn.canon(x) for x in terms)
            node_c = "gateway.nodes.get(In.node_id)"
            want_sets = [
                sorted(["message_buffer", node_c, f"{node_c}.sleeping"]),
                sorted(["message_buffer is not None", f"{node_c} is not None", f"{node_c}.sleeping"]),
                sorted(["message_buffer", f"{node_c} is not None", f"{node_c}.sleeping"]),
                sorted(["message_buffer is not None", node_c, f"{node_c}.sleeping"]),
            ]
            true_branch = pol is True
            if got in want_sets and true_branch:
                chk.ok(rule, k2, "parks iff buffer passed and node known and node.sleeping", ctx.loc(f, t.ast))
            else:
                chk.refute(rule, k2, f"parking is decided by `{norm(t.ast)}` (terms {got}); the statement requires: buffering allowed AND destination known AND destination sleeping", ctx.loc(f, t.ast))
        # the write
        for w in writes:
            chk.instance(rule)
            k = fkey(f, w)
            line_p = f.positional_params[-1]
            if len(w.args) == 1 and isinstance(w.args[0], ast.Name) and w.args[0].id == line_p and isinstance(ctx.prog.parents.get(w), ast.Await):
                chk.ok(rule, k, "writes the encoded line it was given, unmodified", ctx.loc(f, w))
            else:
                chk.refute(rule, k, f"`{norm(w)}` does not write exactly the encoded line received from Gateway.send", ctx.loc(f, w))
    chk.floor(rule, "outgoing set handlers", len(done), 1)


def _conjunction(te: ast.expr, pol: bool):
    """The terms t1..tn with (te evaluates to pol) == (t1 and ... and tn), or None when it is not a conjunction."""
    if pol:
        if isinstance(te, ast.BoolOp) and isinstance(te.op, ast.And):
            out = []
            for v in te.values:
                sub = _conjunction(v, True)
                if sub is None:
                    return None
                out += sub
            return out
        if isinstance(te, ast.UnaryOp) and isinstance(te.op, ast.Not):
            return _conjunction(te.operand, False)
        if isinstance(te, ast.BoolOp):
            return None
        return [te]
    # te is false
    if isinstance(te, ast.UnaryOp) and isinstance(te.op, ast.Not):
        return _conjunction(te.operand, True)
    if isinstance(te, ast.BoolOp) and isinstance(te.op, ast.Or):
        out = []
        for v in te.values:
            sub = _conjunction(v, False)
            if sub is None:
                return None
            out += sub
        return out
    if isinstance(te, ast.Compare) and len(te.ops) == 1 and isinstance(te.ops[0], (ast.Is, ast.IsNot)) and isinstance(te.comparators[0], ast.Constant) and te.comparators[0].value is None:
        flipped = ast.IsNot() if isinstance(te.ops[0], ast.Is) else ast.Is()
        return [ast.copy_location(ast.Compare(left=te.left, ops=[flipped], comparators=te.comparators), te)]
    return None


def _paths(g: CFG, limit: int = 200):
    out = []

    def rec(n, path, seen):
        if len(out) >= limit:
            return
        if n is g.exit:
            out.append(path)
            return
        for s, lab in n.succ:
            if lab == "exc" or s in seen:
                continue
            rec(s, path + [s], seen | {s})

    rec(g.entry, [g.entry], {g.entry})
    return out


def wake1(ctx: Ctx, chk) -> None:
    rule = "WAKE-1"
    chk.rule(rule, "the flush is reachable from exactly the wake cells: internal 22 (heartbeat response) in 2.0/2.1 and internal 32 (pre-sleep notification) in 2.2 - not from heartbeat response in 2.2 and not from any 1.x cell; the wake handlers mark the node sleeping before flushing")
    I = ctx.I
    flush_fqs = {f.fq for f in sb.flush_functions(ctx)}
    cells = tables.handler_cells(ctx)
    n = 0
    for V in ctx.versions:
        reach = set()
        for cell, cal in cells[V].items():
            if cal is None:
                continue
            n += 1
            if any(f.fq in flush_fqs for f, _fr in tables.reachable_defs(ctx, cal, V)):
                # only count cells that reach the flush by themselves (not through the command-level dispatcher)
                if cell[0] == "cmd" and cell[1] in ("internal", "stream"):
                    continue
                reach.add(cell)
        want = set()
        if V in WAKE:
            name, value = WAKE[V]
            canon = I.folder.enum_canonical(I.vclass(V, "Internal"))
            if canon.get(value) != name:
                chk.instance(rule)
                chk.refute(rule, f"Internal[{value}]@{V}", f"in protocol {V} internal type {value} is canonically named {canon.get(value)!r}, not {name}: the wake handler looked up by name is dead code", I.vmod(V).relpath, version=V)
            want = {("internal", value)}
        chk.instance(rule)
        key = f"flush-cells@{V}"
        if reach == want:
            chk.ok(rule, key, f"flush reachable from {sorted(reach) or 'no cell'}", I.vmod(V).relpath)
        else:
            extra = sorted(reach - want)
            missing = sorted(want - reach)
            msg = []
            if missing:
                msg.append(f"the wake message {missing} does not release the buffered commands")
            if extra:
                msg.append(f"{extra} release buffered commands although they are not the wake signal of protocol {V}")
            chk.refute(rule, f"flush-cells::{V}::{missing}::{extra}", "; ".join(msg), I.vmod(V).relpath, version=V)
        # sleeping = True before the flush
        for cell in sorted(want & reach):
            cal = cells[V][cell]
            chk.instance(rule)
            ok = False
            where = ""
            for f in tables.chain_defs(ctx, cal, V):
                f = ctx.inl(f, lambda h: not h.name.startswith("handle_") and h.fq not in flush_fqs)  # bookkeeping helpers written out
                calls = [x for x in ctx.own_nodes(f) if isinstance(x, ast.Call) and any(fq.endswith("." + norm(x.func).rsplit(".", 1)[-1]) for fq in flush_fqs)]
                if not calls:
                    continue
                g = CFG(f.node)
                cn = Canon(I, f)
                sets = [x for x in g.nodes if x.kind == "stmt" and isinstance(x.ast, ast.Assign) and any(isinstance(t, ast.Attribute) and t.attr == "sleeping" and cn.canon(t.value) == "gateway.nodes[In.node_id]" for t in x.ast.targets) and isinstance(x.ast.value, ast.Constant) and x.ast.value.value is True]
                via_setter = [m_ for m_ in _marks_sleeping(ctx, f) if not any(isinstance(t, ast.Attribute) and t.attr == "sleeping" for t in (m_.targets if isinstance(m_, ast.Assign) else [m_.target]))]
                sets += [x for x in g.nodes if x.kind == "stmt" and any(x.ast is m_ for m_ in via_setter)]  # a Node property whose setter sets the mark
                cnodes = g.nodes_where(lambda x: x.contains(calls[0]))
                where = ctx.loc(f, calls[0])
                if sets and cnodes and all(any(g.dominates(s, c) for s in sets) for c in cnodes):
                    ok = True
            # every way of completing the wake announcement releases the buffer: no normal path through a definition
            # on the chain avoids both the flush and the hand-over to the next definition (an early return for some
            # kind of node would leave its parked commands unwritten for ever)
            bypass = None
            for f0 in tables.chain_defs(ctx, cal, V):
                fx = ctx.inl(f0, lambda h: not h.name.startswith("handle_") and h.fq not in flush_fqs)
                fcalls = [x for x in ctx.own_nodes(fx) if isinstance(x, ast.Call) and any(fq.endswith("." + norm(x.func).rsplit(".", 1)[-1]) for fq in flush_fqs)]
                wrapped_params = ctx.I.wrapped_param_names(f0)
                deleg = [x for x in ctx.own_nodes(fx) if isinstance(x, ast.Call) and ((isinstance(x.func, ast.Attribute) and isinstance(x.func.value, ast.Call) and norm(x.func.value.func) == "super") or (isinstance(x.func, ast.Name) and x.func.id in wrapped_params))]
                gx = CFG(fx.node)
                stop = gx.nodes_where(lambda x: any(x.contains(c) for c in fcalls + deleg))
                px = gx.reach_avoiding([gx.entry], lambda x: x is gx.exit, lambda x: x in stop, from_succ=False)
                if px is not None and bypass is None:
                    bypass = (f0, gx.path_text(px))
            chk.instance(rule)
            kb = f"wake-handler-always-flushes@{V}"
            if bypass is None:
                chk.ok(rule, kb, "every normal path through the wake handler chain reaches the flush", where, sample=False)
            else:
                chk.refute(rule, f"wake-handler::{cal.chain()[-1].func.fq}::bypass", f"the wake announcement of protocol {V} can be handled to completion in {bypass[0].qualname} without releasing the parked commands ({' -> '.join(bypass[1][1:6])}): for the nodes that take this path, commands sent while they were marked sleeping are never written", bypass[0].where, version=V)
            k = f"wake-handler-marks-sleeping@{V}"
            if ok:
                chk.ok(rule, k, "node.sleeping = True dominates the flush call", where)
            else:
                chk.refute(rule, f"wake-handler::{cal.chain()[-1].func.fq}::sleeping", f"the wake handler of protocol {V} does not set node.sleeping = True before flushing: later commands for this node are written while it sleeps", where, version=V)
    chk.floor(rule, "handler-table cells examined", n, 60)


def flush_node(ctx: Ctx, chk) -> None:
    rule = "FLUSH-NODE"
    chk.rule(rule, "every send in the flush is conditional on the entry's node equalling In.node_id (only the woken node's commands are released)")
    I = ctx.I
    for f in sb.flush_functions(ctx):
        fl = sb.analyse_flush(ctx, f)
        cn = Canon(I, f)
        chk.instance(rule)
        key = f"{f.fq}::node-filter"
        filt = None
        src = sb.snapshot_source(ctx, fl)
        cands: list[ast.expr] = []
        # follow the local definitions the loop's iterable is built from (snapshot of keys -> popped values -> loop)
        seen_defs = set()
        work = [src] if src is not None else []
        while work:
            d = work.pop()
            if d is None or id(d) in seen_defs:
                continue
            seen_defs.add(id(d))
            for comp in [x for x in ast.walk(d) if isinstance(x, (ast.DictComp, ast.ListComp, ast.GeneratorExp, ast.SetComp))]:
                for gen in comp.generators:
                    cands += gen.ifs
            for nm in [x.id for x in ast.walk(d) if isinstance(x, ast.Name)]:
                la = ctx.I.local_assigns(f).get(nm) or []
                if len(la) == 1 and isinstance(la[0], ast.expr):
                    work.append(la[0])
        if False:
            pass
            comp_val = None
            if isinstance(src, ast.DictComp) and len(src.generators) == 1 and isinstance(src.generators[0].target, ast.Tuple):
                comp_key, comp_val = [norm(x) for x in src.generators[0].target.elts]
        for t in fl.cfg.nodes:
            if t.kind == "test" and sb._inside(fl.loop, t.ast) and all(fl.cfg.dominates(t, s) for s in fl.sends):
                cands.append(t.ast)
        for c in cands:
            for cmp_ in ([c] if isinstance(c, ast.Compare) else [x for x in ast.walk(c) if isinstance(x, ast.Compare)]):
                if len(cmp_.ops) == 1 and isinstance(cmp_.ops[0], ast.Eq):
                    sides = [cn.canon(cmp_.left), cn.canon(cmp_.comparators[0])]  # locals (`woken = message.node_id`) written out
                    if "In.node_id" in sides:
                        other = sides[1 - sides.index("In.node_id")]
                        if other.endswith(".node_id") or other.endswith("[0]"):
                            filt = cmp_
        if filt is None:
            filt = _helper_node_filter(ctx, f, [src, fl.loop.iter], message_param(f))
        if filt is not None:
            chk.ok(rule, key, f"`{norm(filt)}` selects the woken node's entries", ctx.loc(f, filt))
        else:
            chk.refute(rule, key, "the flush sends buffered commands without comparing the entry's node with the node that woke up: commands of nodes that are still asleep are written", ctx.loc(f, fl.loop))


def _helper_node_filter(ctx: Ctx, f, exprs, msg: str):
    """The node filter may live in a helper that hands out the entries: `<entry>.node_id == <param>` with the
    parameter bound to In.node_id at the call."""
    from .common import callee_names

    for e in exprs:
        if e is None:
            continue
        inner = {id(x) for x in ast.walk(e)}
        for call, nm in sb.helper_calls(ctx, f, "reads", "set_messages") + sb.helper_calls(ctx, f, "removes", "set_messages"):
            if id(call) not in inner:
                continue
            h = ctx.func(nm)
            params = [a.arg for a in h.node.args.posonlyargs + h.node.args.args]
            if params and params[0] in ("self", "cls"):
                params = params[1:]
            amap = dict(zip(params, call.args))
            amap.update({kw.arg: kw.value for kw in call.keywords if kw.arg})
            for cmp_ in [x for x in ctx.own_nodes(h) if isinstance(x, ast.Compare) and len(x.ops) == 1 and isinstance(x.ops[0], ast.Eq)]:
                sides = [cmp_.left, cmp_.comparators[0]]
                for i in (0, 1):
                    a, b = sides[i], sides[1 - i]
                    if isinstance(a, ast.Name) and a.id in amap and norm(amap[a.id]) == f"{msg}.node_id" and (norm(b).endswith(".node_id") or norm(b).endswith("[0]")):
                        return cmp_
    return None


def flush_once(ctx: Ctx, chk) -> None:
    rule = "FLUSH-ONCE"
    chk.rule(rule, "each buffered command is re-sent unbuffered (a buffered re-send would park it again for ever) and exactly once per iteration")
    for f in sb.flush_functions(ctx):
        fl = sb.analyse_flush(ctx, f)
        chk.instance(rule)
        if len(fl.sends) != 1:
            chk.refute(rule, f"{f.fq}::sends-per-iteration", f"{len(fl.sends)} sends per buffered entry: a command is written {'more than once' if fl.sends else 'never'}", ctx.loc(f, fl.loop))
        else:
            chk.ok(rule, f"{f.fq}::sends-per-iteration", "one send per entry", ctx.loc(f, fl.loop))
        for s in fl.sends:
            chk.instance(rule)
            call = sb.is_send(s.ast)
            flag = sb.send_buffered_flag(call)
            k = fkey(f, call) + "::unbuffered"
            if flag is False:
                chk.ok(rule, k, "message_buffer=False", ctx.loc(f, call))
            else:
                chk.refute(rule, k, f"the flush re-sends with buffering {'enabled (default)' if flag in (True, 'default') else 'undetermined'}: the node is marked sleeping, so the command is parked again instead of written", ctx.loc(f, call))
            if not isinstance(ctx.prog.parents.get(call), ast.Await):
                chk.refute(rule, fkey(f, call) + "::awaited", "the re-send coroutine is not awaited: nothing is written", ctx.loc(f, call))
        chk.instance(rule)
        keyed = [x for x, key in sb.removal_sites(ctx, f, "set_messages") if key is not None]
        if keyed:
            chk.ok(rule, f"{f.fq}::removal", "written entries are removed by key (not written again at the next wake)", ctx.loc(f, keyed[0]))
        else:
            chk.refute(rule, f"{f.fq}::removal", "the flush does not remove the entries it writes: every later wake writes the same commands again", ctx.loc(f, fl.loop))
    sb.none_propagation(ctx, chk, rule)


def _marks_sleeping(ctx: Ctx, f) -> list:
    """Statements of f that set a node's sleeping mark to something that can be true: a store into `.sleeping`, or a
    store into an attribute of Node / Child that is a property whose setter does that."""
    out = []
    node_cls = ctx.cls("aiomysensors.model.node.Node")
    setters = {}
    for c in node_cls.repo_mro():
        for name, fl in c.methods.items():
            for m in fl:
                if m.is_setter():
                    setters.setdefault(name, m)
    for n in ctx.own_nodes(f):
        if not isinstance(n, (ast.Assign, ast.AnnAssign, ast.AugAssign)):
            continue
        tg = n.targets if isinstance(n, ast.Assign) else [n.target]
        for t in tg:
            for x in ([t] if not isinstance(t, (ast.Tuple, ast.List)) else t.elts):
                if not isinstance(x, ast.Attribute):
                    continue
                if x.attr == "sleeping":
                    v = getattr(n, "value", None)
                    if not (isinstance(v, ast.Constant) and v.value in (False, None, 0)):
                        out.append(n)
                elif x.attr in setters and f is not setters[x.attr] and (ctx.prog.type_of(f.module, x.value) or "").split(" | ")[0].endswith("node.Node"):
                    if _marks_sleeping(ctx, setters[x.attr]):
                        out.append(n)
    return out


def sleep_mark(ctx: Ctx, chk) -> None:
    rule = "SLEEP-MARK"
    chk.rule(rule, "a node is marked as sleeping only by its wake announcement (heartbeat response in 2.0/2.1, pre-sleep notification in 2.2): no other received message - in particular not the heartbeat response under 2.2, which always-on nodes answer too - sets the mark (directly, in a helper, or through a property setter of Node); otherwise set commands for a node that never announces a wake are parked for ever instead of being written immediately")
    I = ctx.I
    flush_fqs = {f.fq for f in sb.flush_functions(ctx)}
    cells = tables.handler_cells(ctx)
    n = 0
    for V in ctx.versions:
        wake = {("internal", WAKE[V][1])} if V in WAKE else set()
        for cell, cal in cells[V].items():
            if cal is None or cell in wake or cell in (("cmd", "internal"), ("cmd", "stream")):
                continue
            n += 1
            chk.instance(rule)
            bad = None
            for f in tables.chain_and_helpers(ctx, cal, V):
                fi = ctx.inl(f, lambda h: not h.name.startswith("handle_") and h.fq not in flush_fqs)  # helpers written out, flag parameters specialised
                marks = _marks_sleeping(ctx, fi)
                if marks and f.fq not in flush_fqs:
                    # a helper method shared with a wake handler is judged where it is written out, not on its own
                    if f is not cal.chain()[-1].func and f.name.startswith("_") and any(f.qualname in getattr(ctx.inl(g_, lambda h: not h.name.startswith("handle_") and h.fq not in flush_fqs), "inlined", []) for g_ in tables.chain_defs(ctx, cal, V)):
                        continue
                    bad = (f, marks[0])
                    break
            key = f"{_cell_text(cell)}@{V}"
            if bad is None:
                chk.ok(rule, key, "does not set the sleeping mark", cal.chain()[-1].func.where, sample=n <= 2)
            else:
                f, st = bad
                chk.refute(rule, f"{cal.chain()[-1].func.fq}::marks-sleeping::{V}", f"under protocol {V} the handler of {_cell_text(cell)} marks the node as sleeping (`{norm(st)[:60]}` in {f.qualname}) although that message is not the wake announcement of this protocol: a node that sends it without ever announcing a wake (an always-on node answering heartbeat requests) has its set commands parked and never written", ctx.loc(f, st), version=V)
    chk.floor(rule, "non-wake handler cells examined", n, 50)


def _cell_text(cell) -> str:
    return f"{cell[0]} {cell[1]}"
