"""C09 No set command is lost when send races with the wake-up flush.

ATOM-1: a removal/store on a shared buffer whose key or precondition was obtained
before an `await` must be re-validated against the *current* content after the
await (asyncio switches tasks only at await, A1).  ITER-1: no iteration over the
live dict spans an await.  Decides the necessary structural condition; schedules
are not executed.
"""

from __future__ import annotations

import ast

from ..cfg import CFG, has_await
from ..model import AnalysisError, norm
from . import sleepbuf as sb
from .common import Ctx, fkey


def forget_guarded(ctx: Ctx, chk) -> None:
    """Independent of how the buffer is laid out (one flat dict, a dict of per-node dicts ...): a necessary condition
    of 'no update is lost' that is visible in the shape of the release loop alone."""
    rule = "FORGET-GUARDED"
    chk.rule(rule, "in a loop that awaits gateway.send for a parked entry and then removes an entry from a container that comes from the set-message buffer (the buffer itself, a per-node bucket of it, a local alias), the removal is guarded by an identity test of the current entry against the object that was sent (`c.get(k) is m` / `c[k] is m`): across the await a newer command may have replaced the entry, and removing by key alone forgets a command that was never written")
    from ..cfg import has_await

    n = 0
    for f in ctx.prog.all_functions():
        if not f.module.name.startswith("aiomysensors.model.protocol"):
            continue
        if not any(isinstance(x, (ast.For, ast.AsyncFor, ast.While)) for x in ctx.own_nodes(f)):
            continue
        f = ctx.inl(f)  # the loop body (send + forget) may be a private helper coroutine
        la = ctx.I.local_assigns(f)
        parents_ = {c_: p_ for p_ in ast.walk(f.node) for c_ in ast.iter_child_nodes(p_)}

        def from_buffer(e, depth=0) -> bool:
            if depth > 4:
                return False
            if any(isinstance(x, ast.Attribute) and x.attr == "set_messages" for x in ast.walk(e)):
                return True
            for x in ast.walk(e):
                if isinstance(x, ast.Name) and x.id in la and x.id not in f.params:
                    if any(isinstance(v, ast.expr) and from_buffer(v, depth + 1) for v in la[x.id]):
                        return True
            return False

        for lp in [x for x in ctx.own_nodes(f) if isinstance(x, (ast.For, ast.AsyncFor, ast.While))]:
            sends = [x for b in lp.body for x in ast.walk(b) if isinstance(x, ast.Await) and isinstance(x.value, ast.Call) and isinstance(x.value.func, ast.Attribute) and x.value.func.attr == "send"]
            if not sends:
                continue
            first_send = min(i_ for i_, b_ in enumerate(lp.body) if any(s_ is x_ for x_ in ast.walk(b_) for s_ in sends))
            for bi, b in enumerate(lp.body):
                for x in ast.walk(b):
                    cont = None
                    if isinstance(x, ast.Delete):
                        for t in x.targets:
                            if isinstance(t, ast.Subscript) and from_buffer(t.value):
                                cont = (t.value, x)
                    elif isinstance(x, ast.Call) and isinstance(x.func, ast.Attribute) and x.func.attr in ("pop", "popitem", "clear") and from_buffer(x.func.value):
                        cont = (x.func.value, x)
                    if cont is None or bi < first_send:
                        continue  # (statement order in the loop body: written-out helpers keep the line numbers of their definition)
                    n += 1
                    chk.instance(rule)
                    key = fkey(f, cont[1]) + "::identity-guard"
                    # enclosing tests inside the loop body
                    guarded = False
                    cur = cont[1]

                    def ident(test, want_is: bool) -> bool:
                        return any(isinstance(c_, ast.Compare) and len(c_.ops) == 1 and isinstance(c_.ops[0], ast.Is if want_is else ast.IsNot) and any(from_buffer(s_) for s_ in (c_.left, c_.comparators[0])) for c_ in ast.walk(test))

                    while cur in parents_ and cur is not lp:
                        par = parents_[cur]
                        if isinstance(par, ast.If) and cur in par.body and ident(par.test, True):
                            guarded = True
                        if isinstance(par, ast.If) and cur in par.orelse and ident(par.test, False):
                            guarded = True
                        # `if <entry> is not <sent>: continue` (or return / break / raise) in front of the removal
                        blk = next((getattr(par, fld_) for fld_ in ("body", "orelse", "finalbody") if isinstance(getattr(par, fld_, None), list) and cur in getattr(par, fld_)), None)
                        if blk is not None:
                            for prev in blk[: blk.index(cur)]:
                                if isinstance(prev, ast.If) and not prev.orelse and prev.body and isinstance(prev.body[-1], (ast.Continue, ast.Return, ast.Break, ast.Raise)) and ident(prev.test, False):
                                    guarded = True
                        cur = par
                    if guarded:
                        chk.ok(rule, key, "removal under an identity test of the current entry", ctx.loc(f, cont[1]), sample=n <= 1)
                    else:
                        chk.refute(rule, key, f"`{norm(cont[1])[:60]}` in {f.qualname} removes the entry by key after the awaited send without checking that it still is the object that was written: a command sent for that key while the write was suspended has replaced it and is forgotten unwritten", ctx.loc(f, cont[1]))
    chk.floor(rule, "removals after an awaited send in release loops", n, 1)


def run(ctx: Ctx, chk) -> None:
    chk.assume("A1", "A2")
    chk.run_rule(forget_guarded, ctx)
    chk.run_rule(atom1, ctx)
    chk.run_rule(iter1, ctx)
    chk.run_rule(mut1, ctx)
    chk.run_rule(sleep1, ctx)
    chk.run_rule(asleep_during_flush, ctx)
    chk.run_rule(sent_is_forgotten, ctx)
    from . import c12

    chk.run_rule(c12.send_dispatches, ctx)
    chk.run_rule(sb.buffer_once, ctx)
    chk.run_rule(sb.buffer_plain, ctx)


def sent_is_forgotten(ctx: Ctx, chk) -> None:
    rule = "ATOM-2"
    chk.rule(rule, "in the flush the entry that is forgotten after a write is the very object that was written: the identity test guarding the removal compares the current entry with the expression handed to send - if the flush writes whatever is *currently* stored but guards with the snapshot object (or the other way round), a command replaced during an earlier write is written, stays parked and is written again")
    from ..prov import Canon

    n = 0
    for f in sb.flush_functions(ctx):
        try:
            fl = sb.analyse_flush(ctx, f)
        except sb.BatchedFlush:
            continue
        cn = Canon(ctx.I, f, "")
        sends = [sb.is_send(s.ast) for s in fl.sends if s.ast is not None]
        sends = [s for s in sends if s is not None and s.args]
        if not sends:
            continue
        sent = {cn.canon(s.args[0]) for s in sends}
        for r in fl.removes:
            # identity tests that dominate the removal
            for t in fl.cfg.nodes:
                if t.kind != "test" or not fl.cfg.dominates(t, r):
                    continue
                for cmp_ in [x for x in ast.walk(t.ast) if isinstance(x, ast.Compare) and len(x.ops) == 1 and isinstance(x.ops[0], (ast.Is, ast.IsNot, ast.Eq, ast.NotEq))]:
                    left, right = cmp_.left, cmp_.comparators[0]
                    cur = None
                    for a, b in ((left, right), (right, left)):
                        inner = a.value if isinstance(a, ast.NamedExpr) else a
                        if (isinstance(inner, ast.Call) and isinstance(inner.func, ast.Attribute) and inner.func.attr == "get" and sb.buffer_attr(inner.func.value) == "set_messages") or (isinstance(inner, ast.Subscript) and sb.buffer_attr(inner.value) == "set_messages"):
                            cur = b
                    if cur is None or (isinstance(cur, ast.Constant) and cur.value is None):
                        continue
                    n += 1
                    chk.instance(rule)
                    key = fkey(f, cmp_) + "::guards-what-was-sent"
                    got = cn.canon(cur)
                    if got in sent:
                        chk.ok(rule, key, f"the removal is guarded by identity with `{norm(cur)}`, the object handed to send", ctx.loc(f, cmp_))
                    else:
                        chk.refute(rule, key, f"the removal is guarded by identity with `{norm(cur)}` but the flush writes `{sorted(sent)[0][:60]}`: when the entry was replaced while an earlier command was being written, the newer command is written, the guard (on the older object) fails, the entry stays parked and the same value is written again at the next wake", ctx.loc(f, cmp_))
    chk.notes["atom2_identity_guards"] = n  # no floor: a guard that lives in a removal helper is judged by WRITE-THEN-FORGET / ATOM-1
    # everything the flush hands to send comes from the snapshot entry: an argument read from the live buffer object at
    # write time (a cached wire string looked up by key, a flag) belongs to whatever is stored *now*, so a command
    # replaced during an earlier write is written under the old entry's identity - the guard then fails, the entry
    # stays parked and the value goes out twice (and the superseded value never)
    for f in sb.flush_functions(ctx):
        try:
            fl = sb.analyse_flush(ctx, f)
        except sb.BatchedFlush:
            continue
        mb_names = {p_ for p_ in f.params if "MessageBuffer" in norm(f.param_annotation(p_) or ast.Constant(value=""))} | {"message_buffer"}
        for s_ in fl.sends:
            call = sb.is_send(s_.ast)
            if call is None:
                continue
            extra = list(call.args[1:]) + [kw.value for kw in call.keywords if kw.arg != "message_buffer"]
            for a in extra:
                chk.instance(rule)
                key = fkey(f, a) + "::send-argument-from-snapshot"
                live = [x for x in ast.walk(a) if isinstance(x, ast.Name) and x.id in mb_names]
                if live:
                    chk.refute(rule, key, f"the flush hands `{norm(a)[:70]}` to send: it is read from the live message buffer when the write happens, not from the snapshot entry being flushed - after a concurrent send for that key it belongs to the newer command, which is thus written while the older entry is the one compared and kept", ctx.loc(f, a))
                else:
                    chk.ok(rule, key, "does not read the live buffer", ctx.loc(f, a), sample=False)


def asleep_during_flush(ctx: Ctx, chk) -> None:
    rule = "FLUSH-ASLEEP"
    chk.rule(rule, "while buffered commands are being released the node stays marked as sleeping: neither the flush nor a wake handler that calls it stores anything but True into <node>.sleeping - with the mark cleared, a send that runs while a release is suspended in the transport bypasses the buffer, and the (older) value still in the flush's snapshot is written after it")
    from . import tables

    flush = sb.flush_functions(ctx)
    flush_names = {f.name for f in flush}
    scope = list(flush)
    for f in tables.all_handler_defs(ctx, include_wrappers=True):
        if f in scope:
            continue
        if any(isinstance(n, ast.Call) and ((isinstance(n.func, ast.Attribute) and n.func.attr in flush_names) or (isinstance(n.func, ast.Name) and n.func.id in flush_names)) for n in ctx.own_nodes(f)):
            scope.append(f)
    # helpers and context managers the flush / the wake handlers use (module functions, private methods, the
    # __enter__ / __exit__ pair of a manager class): what they store runs around the release as well
    extra: list = []
    for f in list(scope):
        for c in [x for x in ctx.own_nodes(f) if isinstance(x, ast.Call) and isinstance(x.func, (ast.Name, ast.Attribute))]:
            d = ctx.prog.resolve_expr(ctx.prog.origin(f.module, c), c.func)
            if d is None:
                continue
            cands = []
            if d.kind == "func" and not d.obj.name.startswith("handle_") and d.obj.module.name.startswith("aiomysensors.model"):
                cands = [d.obj]
            elif d.kind == "class" and d.obj.module.name.startswith("aiomysensors.model"):
                cands = [m_ for nm_ in ("__enter__", "__exit__", "__aenter__", "__aexit__", "__init__") for m_ in [d.obj.find_method(nm_)] if m_ is not None]
            for h in cands:
                if h not in scope and h not in extra:
                    extra.append(h)
    scope += extra
    n = 0
    for f in scope:
        n += 1
        chk.instance(rule)
        bad = None
        for node in ctx.own_nodes(f):
            tg = node.targets if isinstance(node, ast.Assign) else [node.target] if isinstance(node, (ast.AugAssign, ast.AnnAssign)) else []
            tg = [x for t in tg for x in (t.elts if isinstance(t, (ast.Tuple, ast.List)) else [t])]
            for t in tg:
                if isinstance(t, ast.Attribute) and t.attr == "sleeping" and not (isinstance(node, ast.Assign) and isinstance(node.value, ast.Constant) and node.value.value is True):
                    bad = node
            if isinstance(node, ast.Call) and isinstance(node.func, ast.Name) and node.func.id == "setattr" and len(node.args) == 3 and isinstance(node.args[1], ast.Constant) and node.args[1].value == "sleeping":
                bad = node
        key = f"{f.fq}::keeps-sleeping-mark"
        if bad is None:
            chk.ok(rule, key, "only `sleeping = True` (or no store at all)", f.where, sample=n <= 2)
        else:
            chk.refute(rule, key, f"`{norm(bad)[:60]}` in {f.qualname} clears / changes the sleeping mark around the release of the buffer: a command sent while a release is suspended is written directly, and the stale snapshot entry for the same key is written after it (the last value written is not the last value sent)", ctx.loc(f, bad))
    chk.floor(rule, "flush functions and wake handlers", n, 3)


def _def_nodes(g: CFG, names: set[str]):
    out = []
    for n in g.nodes:
        a = n.ast
        if a is None:
            continue
        if n.kind == "iter" and any(isinstance(x, ast.Name) and x.id in names for x in ast.walk(a.target)):
            out.append(n)
        elif n.kind == "stmt" and isinstance(a, (ast.Assign, ast.AnnAssign, ast.AugAssign)):
            targets = a.targets if isinstance(a, ast.Assign) else [a.target]
            if any(isinstance(x, ast.Name) and x.id in names and isinstance(x.ctx, ast.Store) for t in targets for x in ast.walk(t)):
                out.append(n)
    return out


def _await_node(n) -> bool:
    if n.ast is None or n.kind in ("join", "dispatch", "entry", "exit", "raise"):
        return False
    if n.kind == "iter":
        return isinstance(n.ast, ast.AsyncFor) or has_await(n.ast.iter)
    if n.kind == "test":
        return has_await(n.ast)
    if n.kind in ("with-enter",):
        return True if isinstance(n.ast, ast.Await) else has_await(n.ast)
    if isinstance(n.ast, (ast.FunctionDef, ast.AsyncFunctionDef, ast.ClassDef)):
        return False
    return has_await(n.ast)


def positive_form(test: ast.expr):
    """(expression, flipped): `not X`, `a is not b`, `a != b`, `a not in b` as their positive counterpart with the
    branches exchanged (`if entry is not sent: continue` / remove  ==  `if entry is sent: remove`)."""
    flipped = False
    while isinstance(test, ast.UnaryOp) and isinstance(test.op, ast.Not):
        test, flipped = test.operand, not flipped
    if isinstance(test, ast.Compare) and len(test.ops) == 1 and isinstance(test.ops[0], (ast.IsNot, ast.NotEq, ast.NotIn)):
        op = {ast.IsNot: ast.Is, ast.NotEq: ast.Eq, ast.NotIn: ast.In}[type(test.ops[0])]()
        test = ast.copy_location(ast.Compare(left=test.left, ops=[op], comparators=test.comparators), test)
        flipped = not flipped
    return test, flipped


def revalidation(test: ast.expr, attr: str, key_txt: str):
    """If `test` re-reads <buf>.<attr> at key and compares by identity/equality: name of the compared value."""
    conj = test.values if isinstance(test, ast.BoolOp) and isinstance(test.op, ast.And) else [test]
    for c in conj:
        if isinstance(c, ast.Compare) and len(c.ops) == 1 and isinstance(c.ops[0], (ast.Is, ast.Eq)):
            for a, b in ((c.left, c.comparators[0]), (c.comparators[0], c.left)):
                cur = None
                if isinstance(a, ast.Call) and isinstance(a.func, ast.Attribute) and a.func.attr == "get" and sb.buffer_attr(a.func.value) == attr and a.args and norm(a.args[0]) == key_txt:
                    cur = a
                elif isinstance(a, ast.Subscript) and sb.buffer_attr(a.value) == attr and norm(a.slice) == key_txt:
                    cur = a
                if cur is not None and isinstance(b, ast.Name):
                    return b.id
                if cur is not None and isinstance(b, ast.Attribute) and isinstance(b.value, ast.Name):
                    return norm(b)  # a field of the record bound with the key (`buffered.message`)
    return None


def atom1(ctx: Ctx, chk) -> None:
    rule = "ATOM-1"
    chk.rule(rule, "every removal from / store into a shared message buffer whose key or precondition was obtained before an await on some path is re-validated after the last await against the current content (identity of the entry) before it mutates")
    n_sites = 0
    for attr in sb.BUFFERS:
        for f in ctx.prog.all_functions():
            rem = sb.removal_sites(ctx, f, attr)
            sto = sb.store_sites(ctx, f, attr)
            if not rem and not sto:
                continue
            g = CFG(f.node)
            for node, key in rem:
                n_sites += 1
                chk.instance(rule)
                st = sb._stmt(ctx, f, node)
                all_copies = g.nodes_of(st)
                k = fkey(f, node)
                verdicts = []
                for rn in (all_copies if key is not None else [None]):
                    verdicts.append(_removal_verdict(ctx, f, g, node, key, [rn] if rn is not None else all_copies, attr))
                bad = [v for v in verdicts if v[0] is False]
                if bad:
                    chk.refute(rule, k, bad[0][1], ctx.loc(f, node))
                else:
                    chk.ok(rule, k, verdicts[0][1] if verdicts else "unreachable", ctx.loc(f, node))
                continue
                rnodes = all_copies
                if key is None:
                    # clear / rebinding: wrong whenever an await can precede it in this function
                    aw = [x for x in g.nodes if _await_node(x)]
                    if any(g.reach_avoiding([a], lambda x: x in rnodes, lambda x: False) for a in aw):
                        chk.refute(rule, k, f"`{norm(node)[:70]}` empties {attr} after an await: entries stored by a concurrent send in the meantime are dropped unseen", ctx.loc(f, node))
                    else:
                        chk.ok(rule, k, "no suspension point precedes the clearing", ctx.loc(f, node))
                    continue
                key_txt = norm(key)
                names = {x.id for x in ast.walk(key) if isinstance(x, ast.Name)}
                defs = _def_nodes(g, names)
                stale = None
                for d in defs:
                    p = g.reach_avoiding([d], lambda x: x in rnodes, lambda x: False)
                    if p is None:
                        continue
                    # is there an await node on some path d -> R ?
                    for a in g.nodes:
                        if not _await_node(a) or a in rnodes:
                            continue
                        p1 = g.reach_avoiding([d], lambda x, a=a: x is a, lambda x: x in rnodes)
                        p2 = g.reach_avoiding([a], lambda x: x in rnodes, lambda x, d=d: x is d)
                        if (p1 is not None or a is d) and p2 is not None:
                            stale = (d, a)
                            break
                    if stale:
                        break
                if stale is None:
                    chk.ok(rule, k, "no suspension point between obtaining the key and the removal", ctx.loc(f, node))
                    continue
                d, a = stale
                # look for a re-validating guard after the last await
                ok = False
                for t in g.nodes:
                    if t.kind != "test" or not all(g.dominates(t, r) for r in rnodes):
                        continue
                    v = revalidation(t.ast, attr, key_txt)
                    if v is None:
                        continue
                    # removal only on the true branch
                    false_starts = [s for s, lab in t.succ if lab == "f"]
                    if g.reach_avoiding(false_starts, lambda x: x in rnodes, lambda x, t=t: x is t, from_succ=False) is not None:
                        continue
                    # no await between the test and the removal
                    true_starts = [s for s, lab in t.succ if lab == "t"]
                    aw_between = False
                    for s in true_starts:
                        for x in g.nodes:
                            if _await_node(x) and x not in rnodes:
                                p1 = g.reach_avoiding([s], lambda y, x=x: y is x, lambda y: y in rnodes, from_succ=False)
                                p2 = g.reach_avoiding([x], lambda y: y in rnodes, lambda y, t=t: y is t)
                                if p1 is not None and p2 is not None:
                                    aw_between = True
                    if aw_between or _await_node(t):
                        continue
                    # the compared value is bound together with the key (same definition node)
                    vdefs = _def_nodes(g, {v.split('.')[0]})
                    if not any(dn is d for dn in vdefs):
                        continue
                    ok = True
                    break
                if ok:
                    chk.ok(rule, k, f"re-validated after the await: the entry at the key must still be the one bound with it (identity) before it is removed", ctx.loc(f, node))
                else:
                    chk.refute(
                        rule,
                        k,
                        f"`{norm(node)[:70]}` removes by a key obtained at line {d.line} but `{a.text()[:60]}` (line {a.line}) suspends in between and nothing re-validates the entry afterwards: a value stored under the same key by a concurrent send during the write is removed without ever being written (lost update)",
                        ctx.loc(f, node),
                    )
            for node, key, val in sto:
                n_sites += 1
                chk.instance(rule)
                st = sb._stmt(ctx, f, node)
                snodes = g.nodes_of(st)
                k = fkey(f, node)
                bad = None
                for t in g.nodes:
                    if t.kind != "test" or not all(g.dominates(t, s) for s in snodes):
                        continue
                    for x in g.nodes:
                        if _await_node(x) and x not in snodes and x is not t:
                            p1 = g.reach_avoiding([t], lambda y, x=x: y is x, lambda y: y in snodes)
                            p2 = g.reach_avoiding([x], lambda y: y in snodes, lambda y, t=t: y is t)
                            if p1 is not None and p2 is not None:
                                bad = (t, x)
                if bad is None:
                    chk.ok(rule, k, "check and store form one atomic section (no suspension point in between)", ctx.loc(f, node))
                else:
                    chk.refute(rule, k, f"the store is decided by `{bad[0].text()[:60]}` but `{bad[1].text()[:60]}` suspends between the check and the store", ctx.loc(f, node))
    chk.floor(rule, "mutation sites of the message buffers", n_sites, 2)


def _removal_verdict(ctx: Ctx, f, g: CFG, node, key, rnodes, attr: str):
    """(ok, text) for one CFG copy (or all copies, for clears) of a removal site."""
    if key is None:
        aw = [x for x in g.nodes if _await_node(x)]
        if any(g.reach_avoiding([a], lambda x: x in rnodes, lambda x: False) for a in aw):
            return False, f"`{norm(node)[:70]}` empties {attr} after an await: entries stored by a concurrent send in the meantime are dropped unseen"
        return True, "no suspension point precedes the clearing"
    key_txt = norm(key)
    names = {x.id for x in ast.walk(key) if isinstance(x, ast.Name)}
    defs = _def_nodes(g, names)
    stale = None
    for d in defs:
        if g.reach_avoiding([d], lambda x: x in rnodes, lambda x: False) is None:
            continue
        for a in g.nodes:
            if not _await_node(a) or a in rnodes:
                continue
            p1 = g.reach_avoiding([d], lambda x, a=a: x is a, lambda x: x in rnodes)
            p2 = g.reach_avoiding([a], lambda x: x in rnodes, lambda x, d=d: x is d)
            if (p1 is not None or a is d) and p2 is not None:
                stale = (d, a)
                break
        if stale:
            break
    if stale is None:
        return True, "no suspension point between obtaining the key and the removal"
    d, a = stale
    for t in g.nodes:
        if t.kind != "test" or not all(g.dominates(t, r) for r in rnodes):
            continue
        pos_t, flipped = positive_form(t.ast)
        v = revalidation(pos_t, attr, key_txt)
        if v is None:
            continue
        lab_f, lab_t = ("t", "f") if flipped else ("f", "t")
        false_starts = [s for s, lab in t.succ if lab == lab_f]
        if g.reach_avoiding(false_starts, lambda x: x in rnodes, lambda x, t=t: x is t, from_succ=False) is not None:
            continue
        true_starts = [s for s, lab in t.succ if lab == lab_t]
        aw_between = False
        for s in true_starts:
            for x in g.nodes:
                if _await_node(x) and x not in rnodes:
                    p1 = g.reach_avoiding([s], lambda y, x=x: y is x, lambda y: y in rnodes, from_succ=False)
                    p2 = g.reach_avoiding([x], lambda y: y in rnodes, lambda y, t=t: y is t)
                    if p1 is not None and p2 is not None:
                        aw_between = True
        if aw_between or _await_node(t):
            continue
        vdefs = _def_nodes(g, {v.split('.')[0]})
        if not any(dn is d for dn in vdefs):
            continue
        return True, "re-validated after the await: the entry at the key must still be the one bound with it (identity) before it is removed"
    return False, (
        f"`{norm(node)[:70]}` removes by a key obtained at line {d.line} but `{a.text()[:60]}` (line {a.line}) suspends in between and nothing re-validates the entry afterwards: "
        "a value stored under the same key by a concurrent send during the write is removed without ever being written (lost update)"
    )


def iter1(ctx: Ctx, chk) -> None:
    rule = "ITER-1"
    chk.rule(rule, "no loop iterates the live buffer dict across an await (a snapshot is required): a concurrent store would break the iteration or be skipped")
    n = 0
    for attr in sb.BUFFERS:
        for f in ctx.prog.all_functions():
            for node in ctx.own_nodes(f):
                if isinstance(node, (ast.For, ast.AsyncFor)):
                    it = node.iter
                    base = it.func.value if isinstance(it, ast.Call) and isinstance(it.func, ast.Attribute) and it.func.attr in ("items", "values", "keys") else it
                    if sb.buffer_attr(base) != attr:
                        continue
                    n += 1
                    chk.instance(rule)
                    k = fkey(f, it) + "::loop"
                    if any(has_await(b) for b in node.body) or isinstance(node, ast.AsyncFor):
                        chk.refute(rule, k, f"the loop iterates the live dict {attr} and awaits inside its body", ctx.loc(f, node))
                    else:
                        chk.ok(rule, k, "loop body has no suspension point", ctx.loc(f, node))
    # flush loops over snapshots
    for f in sb.flush_functions(ctx):
        fl = sb.analyse_flush(ctx, f)
        n += 1
        chk.instance(rule)
        k = f"{f.fq}::flush-iterates"
        if fl.live:
            if any(has_await(b) for b in fl.loop.body):
                chk.refute(rule, k, "the flush iterates the live set_messages dict and awaits the transport inside the loop", ctx.loc(f, fl.loop))
            else:
                chk.ok(rule, k, "no await inside the loop", ctx.loc(f, fl.loop))
        else:
            src = sb.snapshot_source(ctx, fl)
            if src is not None and sb.reads_buffer(src, "set_messages", ctx, f):
                chk.ok(rule, k, f"iterates a snapshot `{norm(src)[:70]}`", ctx.loc(f, fl.loop))
            else:
                raise AnalysisError(f"ITER-1: flush in {f.fq} iterates `{norm(fl.snapshot)}` whose origin is not recognised")
    chk.floor(rule, "buffer iterations", n, 1)


def mut1(ctx: Ctx, chk) -> None:
    rule = "MUT-1"
    chk.rule(rule, "a parked entry is never modified in place: the flush recognises 'replaced while I was writing' by object identity, which only works if every send that changes the value stores a different object under the key")
    n = 0
    for attr in sb.BUFFERS:
        for f in ctx.prog.all_functions():
            ups = sb.inplace_updates(ctx, f, attr)
            names = sb.entry_names(ctx, f, attr)
            if names or ups:
                n += 1
                chk.instance(rule)
                if ups:
                    st, who, fld = ups[0]
                    chk.refute(rule, fkey(f, st), f"`{norm(st)[:70]}` changes field {fld} of an entry that is parked in {attr}: a flush that is suspended in the write of that entry still sees the same object afterwards, removes it, and the new value is never written (lost update)", ctx.loc(f, st))
                else:
                    chk.ok(rule, f"{f.fq}::{attr}", f"entries bound as {sorted(names)} are only read", f.where, sample=n <= 2)
    chk.floor(rule, "functions binding buffer entries", n, 1)


def callee_names_safe(ctx: Ctx, f, c) -> set:
    from .common import callee_names

    if not isinstance(c.func, (ast.Name, ast.Attribute)):
        return set()
    try:
        return callee_names(ctx, f, c)
    except AnalysisError:
        return set()


def sleep1(ctx: Ctx, chk) -> None:
    rule = "SLEEP-1"
    chk.rule(rule, "a wake handler marks the node sleeping=True before it starts the flush and never stores another value: while the flush is suspended in a write, a concurrent send for that node is parked (and found by the re-validation) instead of overtaking the older value that is still being flushed")
    from .common import callee_names

    flush_fqs = {f.fq for f in sb.flush_functions(ctx)}
    n = 0
    for f in ctx.prog.all_functions():
        if f.fq in flush_fqs:
            continue
        if not any(isinstance(c, ast.Call) and callee_names_safe(ctx, f, c) & flush_fqs for c in ctx.own_nodes(f)):
            continue
        f = ctx.inl(f, lambda h: not h.name.startswith("handle_") and h.fq not in flush_fqs)  # bookkeeping helpers written out
        calls = [c for c in ctx.own_nodes(f) if isinstance(c, ast.Call) and ((isinstance(c.func, ast.Attribute) and isinstance(c.func.value, ast.Name)) or isinstance(c.func, ast.Name)) and callee_names(ctx, f, c) & flush_fqs]
        if not calls:
            continue
        g = CFG(f.node)
        stores = []
        for x in ctx.own_nodes(f):
            if isinstance(x, (ast.Assign, ast.AnnAssign, ast.AugAssign)):
                targets = x.targets if isinstance(x, ast.Assign) else [x.target]
                if any(isinstance(t, ast.Attribute) and t.attr == "sleeping" for t in targets):
                    stores.append(x)
        for c in calls:
            n += 1
            chk.instance(rule)
            k = fkey(f, c) + "::sleeping"
            bad = [x for x in stores if not (isinstance(x, ast.Assign) and isinstance(x.value, ast.Constant) and x.value.value is True)]
            # what the handler calls around the flush (context managers entered around it, helpers) must not
            # clear the flag either
            seen_fn = {f.fq} | flush_fqs
            work = [(f, n_) for n_ in ctx.own_nodes(f) if isinstance(n_, ast.Call)]
            depth_of = {f.fq: 0}
            while work:
                g_, call_ = work.pop()
                try:
                    names = callee_names(ctx, g_, call_)
                except AnalysisError:
                    continue
                for nm in sorted(names):
                    if nm in seen_fn or not nm.startswith("aiomysensors."):
                        continue
                    try:
                        h = ctx.func(nm)
                    except (AnalysisError, KeyError):
                        continue
                    seen_fn.add(nm)
                    if h.name == "__init__":
                        continue
                    for x in ctx.own_nodes(h):
                        if isinstance(x, (ast.Assign, ast.AnnAssign, ast.AugAssign)):
                            tg = x.targets if isinstance(x, ast.Assign) else [x.target]
                            if any(isinstance(t, ast.Attribute) and t.attr == "sleeping" for t in tg) and not (isinstance(x, ast.Assign) and isinstance(x.value, ast.Constant) and x.value.value is True):
                                bad.append(x)
                    depth_of[nm] = depth_of.get(g_.fq, 0) + 1
                    if depth_of[nm] < 2:
                        work += [(h, n_) for n_ in ctx.own_nodes(h) if isinstance(n_, ast.Call)]
            cnodes = g.nodes_of(sb._stmt(ctx, f, c))
            dom = [x for x in stores if x not in bad and all(any(g.dominates(sn, cn_) for sn in g.nodes_of(x)) for cn_ in cnodes)]
            if bad:
                chk.refute(rule, k, f"`{norm(bad[0])}` (reached from {f.qualname}): the node is not marked sleeping while its parked commands are being written, so a concurrent send is written at once and the older parked value is written after it (the last value written is not the last value sent)", f"{f.module.relpath}:{bad[0].lineno}")
            elif not dom:
                chk.refute(rule, k, f"the flush started by `{norm(c)[:60]}` is not preceded by `sleeping = True` on every path", ctx.loc(f, c))
            else:
                chk.ok(rule, k, f"`{norm(dom[0])}` dominates the flush; no other value is stored", ctx.loc(f, c))
    chk.floor(rule, "flush call sites", n, 2)
