"""C02 Decoder accepts exactly the well-formed lines and decodes them literally."""

from __future__ import annotations

import ast

from ..eea import St
from ..interp import Frame
from ..model import AnalysisError, norm
from . import c01, codec
from .common import Ctx, escape_rule, fkey, short

MMVE = "marshmallow.exceptions.ValidationError"
LISTEN = "aiomysensors.gateway.Gateway.listen"


def run(ctx: Ctx, chk) -> None:
    chk.assume("A3", "A5")
    chk.run_rule(decl1, ctx)
    chk.run_rule(xfield1, ctx)
    chk.run_rule(eea_load, ctx)
    c01.norm1(ctx, chk, "LITERAL-1")
    # six fields, payload after the 5th delimiter: same rule as C01
    rule = "DELIM-1"
    chk.rule(rule, "the decoder isolates the payload as everything after the 5th ';' (a line with more than six ';'-separated parts is accepted with the rest as payload)")
    _sch, _hooks = c01.schema_hooks(ctx)
    _pre = _hooks["pre_load"][0] if _hooks["pre_load"] else None
    n = codec.check_delim1(ctx, chk, rule, only_funcs={f"{codec.SCHEMA}.to_dict"} | ({h.fq for h in codec.decode_helpers(ctx, _pre)} if _pre is not None else set()))
    chk.floor(rule, "split sites in MessageSchema.to_dict", n, 1)
    chk.run_rule(fresh_decode, ctx)
    chk.run_rule(memoised_decode, ctx)
    from .mmtemplates import template1

    chk.run_rule(lambda c, k: template1(c, k, [codec.SCHEMA]), ctx)


def fresh_decode(ctx: Ctx, chk) -> None:
    rule = "FRESH-DECODE-1"
    chk.rule(rule, "every received line is decoded by MessageSchema.load in the very step that dispatches it: the message handed to the handler (and yielded) is `self._message_schema.load(<the line just read>)`, not the result of a memoising wrapper or a remembered object (an accepted line always decodes to exactly the field values it spells, whatever happened to earlier messages)")
    from ..prov import Canon
    from . import tables

    listen_raw = ctx.func(LISTEN)
    listen = ctx.inl(listen_raw)
    calls = tables.dispatch_calls(ctx, listen, tables.DISPATCH)
    if len(calls) != 1:
        raise AnalysisError(f"FRESH-DECODE-1: expected one handler dispatch in Gateway.listen, found {len(calls)}")
    c = calls[0]
    cn = Canon(ctx.I, listen, "")
    chk.instance(rule)
    key = f"{listen_raw.fq}::decoded-message"
    got = cn.canon(c.args[1]) if len(c.args) > 1 else "?"
    a1 = c.args[1] if len(c.args) > 1 else None
    if isinstance(a1, ast.Name) and got == a1.id:
        # `message = load(...)` ... `message = await handler(self, message, ...)`: the binding that reaches the dispatch
        pos_ = {id(x): i_ for i_, x in enumerate(ast.walk(listen.node))}  # written-out code keeps the lines of its definition: order by position in the tree
        pre_ = []

        def _walk(n_):
            pre_.append(n_)
            for ch_ in ast.iter_child_nodes(n_):
                _walk(ch_)

        _walk(listen.node)
        pos_ = {id(x): i_ for i_, x in enumerate(pre_)}
        cands = [v for v in (ctx.I.local_assigns(listen).get(a1.id) or []) if isinstance(v, ast.expr) and not any(x is c for x in ast.walk(v)) and pos_.get(id(v), 0) <= pos_.get(id(c), 0)]
        if len(cands) == 1:
            got = cn.canon(cands[0])
    want = "self._message_schema.load(self.transport.read())"
    unrecognised = None
    from .common import schema_attrs
    import re as _re

    m_ = _re.match(r"^self\.(\w+)\.load\(self\.transport\.read\(\)\)$", got)
    if m_ and m_.group(1) in schema_attrs(ctx):
        want = got  # the gateway's own MessageSchema instance, whatever the attribute is called
    if got == want:
        chk.ok(rule, key, f"handler(self, {want}, <buffer>)", ctx.loc(listen_raw, c))
    elif not _re.search(r"\.loads?\(", got):
        # not a decode call at all (a local filled inside a helper that could not be written out, a stored bound
        # method ...): where the message comes from is not visible here - no verdict (memoising wrappers are looked for
        # below in any case)
        unrecognised = f"FRESH-DECODE-1: the message handed to the handlers is `{got[:60]}` - its origin is not a decode call visible in Gateway.listen (helper not written out)"
    else:
        chk.refute(rule, key, f"the message handed to the handlers is `{got[:80]}`, not `{want}`: a decode that is cached or routed through another object can return a message whose fields no longer spell the line (e.g. the same mutable Message for a repeated line)", ctx.loc(listen_raw, c))
    if unrecognised:
        raise AnalysisError(unrecognised)


def memoised_decode(ctx: Ctx, chk) -> None:
    memoised_codec(ctx, chk, ("load", "loads"))


def memoised_codec(ctx: Ctx, chk, entry=("load", "dump", "loads", "dumps")) -> None:
    rule = "FRESH-DECODE-1"
    chk.rule(rule, "every received line is decoded by MessageSchema.load in the very step that dispatches it; no memoising wrapper sits around a codec entry point anywhere in the package")
    # no memoising wrapper around codec entry points anywhere in the package
    for f in ctx.prog.all_functions():
        for node in ctx.own_nodes(f):
            if isinstance(node, ast.Call) and norm(node.func).rsplit(".", 1)[-1] in ("lru_cache", "cache") and any(isinstance(a, ast.Attribute) and a.attr in entry for x in [node] + [p_ for p_ in [ctx.prog.parents.get(node)] if isinstance(p_, ast.Call)] for a in x.args):
                chk.instance(rule)
                chk.refute(rule, fkey(f, node) + "::memoised-codec", f"`{norm(ctx.prog.parents.get(node) if isinstance(ctx.prog.parents.get(node), ast.Call) else node)[:70]}` memoises a codec entry point: repeated lines / messages share one mutable result", ctx.loc(f, node))
    # ... nor around a function of the package that calls one (a decorated helper, or `cache(self._dump)`)

    def calls_entry(fn) -> bool:
        return any(isinstance(n_, ast.Call) and isinstance(n_.func, ast.Attribute) and n_.func.attr in entry for n_ in ctx.own_nodes(fn))

    memo = ("lru_cache", "cache", "cached_property")
    for f in ctx.prog.all_functions():
        if any(d.split("(")[0].rsplit(".", 1)[-1] in memo for d in f.decorator_names) and calls_entry(f):
            chk.instance(rule)
            chk.refute(rule, f"{f.fq}::memoised-codec", f"{f.qualname} is memoised and calls a codec entry point: repeated lines / messages share one result", f.where)
        for node in ctx.own_nodes(f):
            if not (isinstance(node, ast.Call) and norm(node.func).rsplit(".", 1)[-1] in memo[:2]):
                continue
            outer = ctx.prog.parents.get(node)
            for x in [node] + ([outer] if isinstance(outer, ast.Call) and outer.func is node else []):
                for a in x.args:
                    if isinstance(a, ast.Attribute) and isinstance(a.value, ast.Name) and a.value.id in ("self", "cls") and f.cls is not None:
                        h = f.cls.find_method(a.attr)
                        if h is not None and calls_entry(h):
                            chk.instance(rule)
                            chk.refute(rule, fkey(f, node) + "::memoised-codec", f"`{norm(x)[:70]}` memoises {h.qualname}, which calls a codec entry point: a message object that was sent before and changed since is written in its old encoding (repeated lines share one mutable Message)", ctx.loc(f, node))


def decl1(ctx: Ctx, chk) -> None:
    rule = "DECL-1"
    chk.rule(rule, "field declarations equal the numbers of the statement: node 0-255 required, child 0-255, ack in {0,1} required, type integer required, payload text required; Command = {0..4}, internal = 3, id request/response = {3,4}, strict system commands = {3,4}, commands allowed on child 255 = {0,3,4} in every protocol module")
    I = ctx.I
    schema = ctx.cls(codec.SCHEMA)
    sloc = f"{schema.module.relpath}:{schema.node.lineno}"

    def check(key, cond, good, bad, loc=sloc):
        chk.instance(rule)
        if cond:
            chk.ok(rule, key, good, loc, sample=key.endswith(("node_id", "ack")))
        else:
            chk.refute(rule, key, bad, loc)

    rec = codec.field_decl(ctx, schema, "node_id")
    if rec is None:
        raise AnalysisError("anchor vanished: MessageSchema.node_id")
    v = rec["validate"] or {}
    check("MessageSchema.node_id", rec["kind"].endswith(("fields.Int", "fields.Integer")) and rec["required"] and v.get("kind") == "Range" and v.get("min") == 0 and v.get("max") == 255 and v.get("min_inclusive", True) and v.get("max_inclusive", True),
          "Int(required, Range(0, 255))", f"node_id is declared {rec['kind']} required={rec['required']} validate={v.get('text')}; the statement demands a required integer in 0-255", f"{rec['module'].relpath}:{rec['call'].lineno}")
    rec = codec.field_decl(ctx, schema, "ack")
    v = (rec or {}).get("validate") or {}
    check("MessageSchema.ack", rec is not None and rec["kind"].endswith(("fields.Int", "fields.Integer")) and rec["required"] and v.get("kind") == "OneOf" and tuple(sorted(v.get("choices", ()))) == (0, 1),
          "Int(required, OneOf((0, 1)))", f"ack is declared validate={v.get('text')} required={rec and rec['required']}; the statement demands a required integer in {{0, 1}}")
    rec = codec.field_decl(ctx, schema, "message_type")
    check("MessageSchema.message_type", rec is not None and rec["kind"].endswith(("fields.Int", "fields.Integer")) and rec["required"] and rec["validate"] is None,
          "Int(required)", f"message_type must be a required integer without range restriction (declared {rec and rec['kind']}, required={rec and rec['required']}, validate={rec and rec['validate']})")
    rec = codec.field_decl(ctx, schema, "payload")
    check("MessageSchema.payload", rec is not None and rec["kind"].endswith(("fields.Str", "fields.String")) and rec["required"] and rec["validate"] is None,
          "Str(required)", f"payload must be required text without restriction (declared {rec and rec['kind']}, required={rec and rec['required']}, validate={rec and rec['validate']})")
    for fname in ("child_id", "command"):
        rec = codec.field_decl(ctx, schema, fname)
        check(f"MessageSchema.{fname}", rec is not None and rec["required"] and rec["kind"].startswith("aiomysensors."),
              f"{rec and rec['kind'].rsplit('.', 1)[-1]}(required)", f"{fname} must be a required repository field (declared {rec and rec['kind']}, required={rec and rec['required']})")
    # child range validator inside validate_child_id
    f = ctx.inl(ctx.func(f"{codec.MESSAGE_MOD}.validate_child_id"))  # parsing may be split off into a private helper
    ranges = [n for n in ctx.own_nodes(f) if isinstance(n, ast.Call) and norm(n.func).endswith("validate.Range")]
    if not ranges:
        # the validator instance may be a module-level constant that validate_child_id calls
        for n in ctx.own_nodes(f):
            if isinstance(n, ast.Call) and isinstance(n.func, ast.Name) and len(n.args) == 1:
                d_ = I.prog.resolve_name(f.module, n.func.id)
                if d_ is not None and d_.kind == "const" and codec.validator_record(ctx, f.module, n.func).get("kind") == "Range":
                    ranges.append(n.func)
    chk.instance(rule)
    if len(ranges) != 1:
        raise AnalysisError("DECL-1: child id Range validator not found in validate_child_id")
    r = codec.validator_record(ctx, f.module, ranges[0])
    if r.get("min") == 0 and r.get("max") == 255 and r.get("min_inclusive", True) and r.get("max_inclusive", True):
        chk.ok(rule, fkey(f, "child range"), "Range(0, 255)", ctx.loc(f, ranges[0]))
    else:
        chk.refute(rule, fkey(f, "child range"), f"child id range is {r.get('min')}..{r.get('max')}; the statement demands 0-255", ctx.loc(f, ranges[0]))
    # per-protocol constants (sibling agreement)
    want = {
        "INTERNAL_COMMAND_TYPE": 3,
        "NODE_ID_REQUEST_TYPES": frozenset({3, 4}),
        "STRICT_SYSTEM_COMMAND_TYPES": frozenset({3, 4}),
        "VALID_SYSTEM_COMMAND_TYPES": frozenset({0, 3, 4}),
    }
    for V in ctx.versions:
        m = I.vmod(V)
        cmd = I.vclass(V, "Command")
        vals = sorted(I.folder.enum_values(cmd))
        check(f"{m.name}.Command", vals == [0, 1, 2, 3, 4], "values {0..4}", f"protocol {V}: Command values are {vals}, the statement says 0-4", f"{cmd.module.relpath}:{cmd.node.lineno}")
        for name, w in want.items():
            got = I.folder.plain(I.folder.const(m, name))
            if isinstance(got, (set, frozenset, list, tuple)):
                got = frozenset(got)
            check(f"{m.name}.{name}", got == w, f"= {sorted(w) if isinstance(w, frozenset) else w}", f"protocol {V}: {name} is {sorted(got) if isinstance(got, frozenset) else got}, the statement implies {sorted(w) if isinstance(w, frozenset) else w}", f"{m.relpath}:1")
        sysc = I.folder.plain(I.folder.const(ctx.module("aiomysensors.model.const"), "SYSTEM_CHILD_ID"))
        check(f"SYSTEM_CHILD_ID@{V}", sysc == 255, "= 255", f"SYSTEM_CHILD_ID is {sysc}, the system child is 255")
    chk.floor(rule, "declarations compared", chk.rules[rule]["instances"], 30)


def xfield1(ctx: Ctx, chk) -> None:
    rule = "XFIELD-1"
    chk.rule(rule, "abstract evaluation of ChildIdField/CommandField._deserialize over the partition child x command x type x {canonical, non-canonical spelling} accepts exactly the cells the statement accepts, for every protocol version (the validators must decide on the parsed integers, not on the text of a field)")
    total = 0
    for V in ctx.versions:
        ev = codec.XEval(ctx, V)
        for canonical in (True, False):
          for child in codec.XFIELD_CELLS["child"]:
            for cmd in codec.XFIELD_CELLS["command"]:
                for mt in codec.XFIELD_CELLS["mtype"]:
                    total += 1
                    chk.instance(rule)
                    got = ev.run_validate(child, cmd, mt, canonical)
                    want = codec.xfield_expected(child, cmd, mt)
                    cell = f"child={_c(child)},command={_c(cmd)},type={_c(mt)}" + ("" if canonical else ",spelled non-canonically (' 255', '0255', '+255')")
                    if got == want:
                        chk.ok(rule, f"cell::{cell}", f"{'accepted' if got else 'rejected'} as the statement says", "src/aiomysensors/model/message.py", sample=total in (1, 60, 120))
                    else:
                        chk.refute(rule, f"cell::{cell}", f"a line with {cell} is {'accepted' if got else 'rejected'} by the validators but must be {'accepted' if want else 'rejected'} (protocol {V})", "src/aiomysensors/model/message.py", version=V)
    chk.floor(rule, "cells evaluated", total, 2 * 5 * 7 * 8 * 5)
    chk.notes["xfield_partition"] = {k: [_c(x) for x in v] for k, v in codec.XFIELD_CELLS.items()}


def _c(v) -> str:
    return str(v[1]) if v[0] == "k" else f"<{v[1]}>"


def eea_load(ctx: Ctx, chk) -> None:
    rule = "EEA-LOAD"
    chk.rule(rule, "decoding a line raises nothing but marshmallow.ValidationError, and Gateway.listen converts that into InvalidMessageError")
    eea = ctx.eea()
    listen = ctx.func(LISTEN)
    # the decode step may be extracted into a private helper of the gateway: analyse listen with it written out
    from ..prov import Canon as _Canon

    _li = ctx.inl(listen)
    _cn = _Canon(ctx.I, _li, "")
    loads = [n for n in ctx.own_nodes(_li) if isinstance(n, ast.Call) and _cn.canon(n.func).endswith("_schema.load")]
    if len(loads) != 1:
        raise AnalysisError(f"EEA-LOAD: expected one schema load in Gateway.listen, found {len(loads)}")
    call = loads[0]
    entries = []
    for V in ctx.versions:
        fr = Frame(ctx.I.make_callee(listen, listen.cls), V)
        esc = eea._apply_suppressions(eea.mm_load(call, St(fr)))
        entries.append((f"MessageSchema.load@{V}", esc))
    escape_rule(ctx, chk, rule, entries, lambda exc, site: eea.issub(exc, MMVE), eea)
    # the conversion in listen
    chk.instance(rule)
    par = ctx.prog.parents.get(call)
    tr = None
    cur = call
    while cur in ctx.prog.parents and cur is not listen.node:
        cur = ctx.prog.parents[cur]
        if isinstance(cur, ast.Try):
            tr = cur
            break
    key = f"{listen.fq}::ValidationError->InvalidMessageError"
    ok = False
    if tr is not None:
        for h in tr.handlers:
            elts = h.type.elts if isinstance(h.type, ast.Tuple) else [h.type] if h.type is not None else []
            names = [eea.exc_class_of(x, Frame(ctx.I.make_callee(listen, listen.cls), None)) for x in elts]
            if any(n and eea.issub(MMVE, n) for n in names):
                raises = [x for b in h.body for x in ast.walk(b) if isinstance(x, ast.Raise) and isinstance(x.exc, ast.Call)]
                if raises and eea.exc_class_of(raises[0].exc.func, Frame(ctx.I.make_callee(listen, listen.cls), None)) == "aiomysensors.exceptions.InvalidMessageError":
                    ok = True
    if ok:
        chk.ok(rule, key, "load is inside try/except ValidationError -> raise InvalidMessageError", ctx.loc(listen, call))
    else:
        chk.refute(rule, key, "a schema ValidationError is not converted into InvalidMessageError in Gateway.listen", ctx.loc(listen, call))
    # ... and building the rejection cannot itself fail for some rejected line (the empty line, a line of blanks ...)
    ime = ctx.cls("aiomysensors.exceptions.InvalidMessageError")
    entries = []
    for k in ime.repo_mro():
        for init in k.methods.get("__init__", []):
            fr = Frame(ctx.I.make_callee(init, k), None)
            entries.append((f"{k.name}.__init__", eea._apply_suppressions(eea.escapes(fr))))
    if entries:
        # the rejection of a *line* hands the constructor the text: a failure that needs a Message object as the
        # argument (an attribute the Message class lacks) cannot happen here and is judged by C03
        escape_rule(ctx, chk, rule, entries, lambda exc, site: site.kind == "no-attribute" and site.text.startswith("Message has no attribute"), eea)
