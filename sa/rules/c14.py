"""C14 Loading a persistence file fails only with the persistence read error."""

from __future__ import annotations

import ast

from ..model import AnalysisError, norm
from .common import Ctx, escape_rule, fkey, short

LOAD = "aiomysensors.persistence.Persistence.load"
PRE = "aiomysensors.exceptions.PersistenceReadError"
PWE = "aiomysensors.exceptions.PersistenceWriteError"


def run(ctx: Ctx, chk) -> None:
    chk.assume("A1", "A3", "A5")
    chk.run_rule(eea_pload, ctx)
    chk.run_rule(handler_order, ctx)
    chk.run_rule(empty1, ctx)
    # observed at Gateway.__aenter__: a failed load must not be followed by a stop()/save() whose own failure
    # (a write error) replaces the read error (same rule as C15)
    from .c15 import load_guard

    chk.run_rule(load_guard, ctx)
    chk.run_rule(enter_esc, ctx)
    from .orderedio import executor_alive

    chk.run_rule(executor_alive, ctx)
    from .mmtemplates import template1

    chk.run_rule(lambda c, k: template1(c, k, ["aiomysensors.model.node.NodeSchema", "aiomysensors.model.node.ChildSchema"]), ctx)


def enter_esc(ctx: Ctx, chk) -> None:
    rule = "ENTER-ESC"
    chk.rule(rule, "observed at Gateway.__aenter__: whatever the persistence file holds, entering the gateway context raises nothing but errors derived from the library's base exception class (the persistence read error for the file; transport errors belong to the connect step) - nothing the entry code does with the restored registry lets another exception type out")
    from .common import escape_rule

    eea = ctx.eea()
    f = ctx.func("aiomysensors.gateway.Gateway.__aenter__")
    esc = eea._apply_suppressions(eea.escapes_of(f, None))
    BASE = "aiomysensors.exceptions.AIOMySensorsError"
    # what the transport's connect step lets out has nothing to do with the file: judged by C16 / C17 / C18
    via_transport = {k for k, path in esc.items() if any(p_.startswith("aiomysensors.transport.") for p_ in path)}
    escape_rule(ctx, chk, rule, [("Gateway.__aenter__", esc)], lambda exc, site: eea.issub(exc, BASE) or (exc, site) in via_transport, eea)


def eea_pload(ctx: Ctx, chk) -> None:
    rule = "EEA-PLOAD"
    chk.rule(rule, "every exception that can propagate out of Persistence.load is PersistenceReadError (PersistenceWriteError only from the save that creates a missing file); the parsed JSON is untrusted (tainted) through Schema.load into the pre_load hooks and nested schemas")
    eea = ctx.eea()
    load = ctx.func(LOAD)
    esc = eea.escapes_of(load, None)
    save = ctx.func("aiomysensors.persistence.Persistence.save")

    def allowed(exc, site):
        if eea.issub(exc, PRE):
            return True
        if eea.issub(exc, PWE) and site.func == save.fq:
            return True
        return False

    escape_rule(ctx, chk, rule, [("Persistence.load", esc)], allowed, eea)
    chk.floor(rule, "frames analysed", eea.frames_analysed, 5)
    # the read error is actually produced for I/O and parse failures
    chk.instance(rule)
    if any(eea.issub(exc, PRE) for (exc, _s) in esc):
        chk.ok(rule, f"{load.fq}::maps-to::PersistenceReadError", "read/parse failures surface as PersistenceReadError", ctx.loc(load, load.node))
    else:
        chk.refute(rule, f"{load.fq}::maps-to::PersistenceReadError", "Persistence.load never raises PersistenceReadError: failures are swallowed", ctx.loc(load, load.node))


def handler_order(ctx: Ctx, chk) -> None:
    rule = "HANDLER-ORDER"
    chk.rule(rule, "the FileNotFoundError handler precedes the broader OSError clause (otherwise it is dead code) and leads to save(): a missing file is created, not an error")
    eea = ctx.eea()
    load_raw = ctx.func(LOAD)
    load = ctx.inl(load_raw)
    from ..interp import Frame

    fr = Frame(ctx.I.make_callee(load_raw, load_raw.cls), None)
    tries = [n for n in ctx.own_nodes(load) if isinstance(n, ast.Try)]
    found = False
    for t in tries:
        seen_broader = False
        for h in t.handlers:
            elts = h.type.elts if isinstance(h.type, ast.Tuple) else [h.type] if h.type is not None else []
            names = [eea.exc_class_of(x, fr) or norm(x) for x in elts] or ["builtins.BaseException"]
            if "builtins.FileNotFoundError" in names and len(h.body) == 1 and isinstance(h.body[0], ast.Raise) and h.body[0].exc is None:
                # `except FileNotFoundError: raise` only keeps the error out of the broader clauses of this try:
                # the handler that decides what a missing file means is further out
                continue
            if "builtins.FileNotFoundError" in names:
                found = True
                chk.instance(rule)
                key = f"{load.fq}::except FileNotFoundError"
                saves = [x for b in h.body for x in ast.walk(b) if isinstance(x, ast.Await) and isinstance(x.value, ast.Call) and norm(x.value.func) == "self.save"]
                reraises = [x for b in h.body for x in ast.walk(b) if isinstance(x, ast.Raise)]
                if seen_broader:
                    chk.refute(rule, key, "the FileNotFoundError clause comes after a clause that already catches it (OSError): a missing file is reported as a read error instead of being created", ctx.loc(load, h))
                elif not saves or reraises:
                    chk.refute(rule, key, "the FileNotFoundError handler does not create the file with save()", ctx.loc(load, h))
                else:
                    chk.ok(rule, key, "precedes the OSError clause and awaits self.save()", ctx.loc(load, h))
            if any(n != "builtins.FileNotFoundError" and eea.issub("builtins.FileNotFoundError", n) for n in names if eea.prog.mro_of(n) or n.startswith("builtins.")):
                seen_broader = True
    if not found:
        chk.instance(rule)
        chk.refute(rule, f"{load.fq}::except FileNotFoundError", "Persistence.load has no FileNotFoundError handler: a missing file is an error instead of being created", ctx.loc(load, load.node))


def empty1(ctx: Ctx, chk) -> None:
    rule = "EMPTY-1"
    chk.rule(rule, "an empty file loads as an empty registry: the text handed to the JSON parser is `read or \"{}\"`")
    load_raw = ctx.func(LOAD)
    load = ctx.inl(load_raw)  # reading / parsing may be extracted into a private helper
    from .common import callee_names

    calls = [n for n in ctx.own_nodes(load) if isinstance(n, ast.Call) and "json.loads" in callee_names(ctx, load_raw, n)]
    if len(calls) != 1:
        raise AnalysisError(f"EMPTY-1: expected one json.loads call in Persistence.load, found {len(calls)}")
    c = calls[0]
    chk.instance(rule)
    a = c.args[0] if c.args else None
    def _const(e):
        if isinstance(e, ast.Constant):
            return e.value
        try:
            return ctx.folder.plain(ctx.folder.fold(load_raw.module, e))  # a named module-level constant
        except Exception:  # noqa: BLE001
            return None

    ok = isinstance(a, ast.BoolOp) and isinstance(a.op, ast.Or) and len(a.values) == 2 and _const(a.values[1]) in ("{}",)
    if not ok and isinstance(a, ast.IfExp):
        # the same default spelled as a conditional expression: `read if read else "{}"` / `"{}" if not read else read`
        t_, b_, o_ = a.test, a.body, a.orelse
        if isinstance(t_, ast.UnaryOp) and isinstance(t_.op, ast.Not):
            t_, b_, o_ = t_.operand, o_, b_
        ok = isinstance(t_, ast.Name) and norm(b_) == norm(t_) and _const(o_) == "{}"
    if ok:
        chk.ok(rule, fkey(load, c), "json.loads(read or '{}')", ctx.loc(load, c))
    else:
        # alternative: explicit `if not read: ...` shape is not recognised -> refuted only for the known wrong shape (bare variable)
        if isinstance(a, ast.Name):
            chk.refute(rule, fkey(load, c), "the file text is parsed without the empty-file default: an empty file raises a read error instead of loading as an empty registry", ctx.loc(load, c))
        else:
            raise AnalysisError(f"EMPTY-1: argument shape `{norm(a) if a is not None else ''}` not recognised")


def thorough(ctx: Ctx, chk) -> None:
    from .common import prune_diff

    entries = [(ctx.func(LOAD), None)]
    prune_diff(ctx, chk, entries)
