"""C03 Receive path raises only library errors, whatever arrives on the wire."""

from __future__ import annotations

import ast

from ..eea import St
from ..interp import Frame
from ..model import AnalysisError, norm
from .common import BASE_ERROR, Ctx, escape_rule, fkey, short

LISTEN = "aiomysensors.gateway.Gateway.listen"
STATE_ATTRS = {"_protocol_version", "_protocol"}


def run(ctx: Ctx, chk) -> None:
    chk.assume("A1", "A2", "A3", "A4", "A5", "A6", "A7")
    eea_listen(ctx, chk, prune=True)
    chk.run_rule(hier, ctx)
    chk.run_rule(state1, ctx)
    from . import c17 as _c17

    chk.run_rule(lambda c, k: _c17.resync1(c, k, "RESYNC-1"), ctx)
    # "the next well-formed line is processed normally": the skip flag of the over-long-line recovery (same rule as C17)
    from .common import OnlyRule

    chk.run_rule(lambda c, k: _c17.frame1(c, OnlyRule(k, "RESYNC-2", "RESYNC-2", "", "after an over-long line was reported, the rest of that line is skipped and the skip flag is cleared on every way out of read(): the lines that follow are delivered")), ctx)
    from .mmtemplates import template1

    chk.run_rule(lambda c, k: template1(c, k, ["aiomysensors.model.message.MessageSchema"]), ctx)


def thorough(ctx: Ctx, chk) -> None:
    # the same analysis without three-valued pruning: discharges that depend on pruning are listed
    from ..eea import EEA

    e2 = EEA(ctx.I, prune=False)
    listen = ctx.func(LISTEN)
    extra = 0
    base_sites = set()
    for V in ctx.versions:
        base_sites |= set(ctx.eea().escapes_of(listen, V))
    for V in ctx.versions:
        for k in e2.escapes_of(listen, V):
            if k not in base_sites:
                extra += 1
    chk.notes["escapes_only_without_pruning"] = extra


def eea_listen(ctx: Ctx, chk, prune: bool) -> None:
    rule = "EEA-LISTEN"
    chk.rule(rule, "for every protocol version, every exception that can propagate out of Gateway.listen derives from AIOMySensorsError")
    eea = ctx.eea(prune)
    listen = ctx.func(LISTEN)
    entries = []
    for V in ctx.versions:
        entries.append((f"Gateway.listen@{V}", eea.escapes_of(listen, V)))
    escape_rule(ctx, chk, rule, entries, lambda exc, site: eea.issub(exc, BASE_ERROR), eea)
    chk.floor(rule, "version contexts", len(entries), 5)
    chk.floor(rule, "frames analysed", eea.frames_analysed, 60)
    chk.floor(rule, "escaping (exception, raise site) pairs examined", chk.rules[rule]["obligations"], 15)


def hier(ctx: Ctx, chk) -> None:
    rule = "HIER-1"
    chk.rule(rule, "every exception class defined in exceptions.py has AIOMySensorsError in its MRO")
    m = ctx.module("aiomysensors.exceptions")
    n = 0
    for c in m.classes.values():
        if c.fq == BASE_ERROR:
            continue
        n += 1
        chk.instance(rule)
        mro = [x.fq if not isinstance(x, str) else x for x in c.mro()]
        if BASE_ERROR in mro:
            chk.ok(rule, c.fq, "AIOMySensorsError in MRO", f"{m.relpath}:{c.node.lineno}", sample=n <= 2)
        else:
            chk.refute(rule, c.fq, f"{c.fq} does not derive from AIOMySensorsError (MRO {mro})", f"{m.relpath}:{c.node.lineno}")
    chk.floor(rule, "exception classes", n, 10)


def state1(ctx: Ctx, chk) -> None:
    """Validate-then-commit: no may-raise operation after the first store of protocol state."""
    rule = "STATE-1"
    chk.rule(rule, "a function that stores the gateway's protocol state performs every may-raise operation before the first of those stores (a rejected version report leaves version and rules in agreement)")
    eea = ctx.eea()
    gw = ctx.cls("aiomysensors.gateway.Gateway")
    n = 0
    from .common import state_attrs

    names = set(state_attrs(ctx).values())

    def _stores_state(s: ast.stmt) -> bool:
        return any(isinstance(n_, ast.Attribute) and isinstance(n_.ctx, ast.Store) and n_.attr in names for n_ in ast.walk(s))

    for fl in gw.mro_methods().values():
        for f in fl:
            if f.name == "__init__":
                continue
            f = ctx.inl(f)  # the stores may sit in a private helper of the setter
            stores = [s for s in f.node.body if _stores_state(s)]
            if not stores:
                continue
            n += 1
            chk.instance(rule)
            for V in ctx.versions[:1]:
                fr = Frame(ctx.I.make_callee(f, gw), V)
                st = St(fr)
                seen_store = False
                bad = None
                for s in f.node.body:
                    esc, st2 = eea.stmt(s, st)
                    esc = eea._apply_suppressions(esc)
                    if seen_store and esc:
                        (exc, site) = sorted(esc, key=lambda k: k[1].loc())[0]
                        bad = (s, exc, site)
                        break
                    if _stores_state(s):
                        # the store statement itself may raise *before* storing only if the value is computed first;
                        # a store whose right-hand side raises has not stored yet
                        seen_store = True
                    if st2 is None:
                        break
                    st = st2
                if bad is not None:
                    s, exc, site = bad
                    chk.refute(
                        rule,
                        fkey(f, s),
                        f"`{norm(s)[:90]}` can raise {short(exc)} (at {site.loc()}: `{site.text}`) after protocol state was already stored in {f.qualname}: version and active rules disagree afterwards",
                        ctx.loc(f, s),
                    )
                else:
                    chk.ok(rule, f.fq, "all may-raise operations precede the first store", ctx.loc(f, f.node))
    chk.floor(rule, "functions storing protocol state", n, 1)


def _stores_state(s: ast.stmt) -> bool:  # default private names (kept for callers outside state1)
    for n in ast.walk(s):
        if isinstance(n, ast.Attribute) and isinstance(n.ctx, ast.Store) and n.attr in STATE_ATTRS:
            return True
    return False
