"""TEMPLATE-1: custom error templates of schema fields / validators only use placeholders the library supplies.

marshmallow formats a field's `error_messages[key]` with exactly the keyword arguments of the `make_error(key, ...)`
call that raises it, and a validator's `error=` text with the keywords of its `_format_error`; a placeholder that is
not supplied makes `str.format` raise KeyError (IndexError for `{}` / `{0}`) *inside* Schema.load - not a
ValidationError, so it escapes every handler that maps validation failures to the library's own errors.

The table of supplied keywords is not written down here: it is read (parsed, never executed) from the installed
marshmallow sources, so it follows the library version the repository actually runs with.
"""

from __future__ import annotations

import ast
import string
from pathlib import Path

from ..model import AnalysisError, norm


def _mm_dir() -> Path:
    import importlib.util

    spec = importlib.util.find_spec("marshmallow")
    if spec is None or not spec.origin:
        raise AnalysisError("TEMPLATE-1: marshmallow is not installed next to the checker")
    return Path(spec.origin).parent


_TABLE: dict | None = None


def library_table() -> dict:
    """{'fields': {class: {key: frozenset(kwargs)}}, 'aliases': {Str: String...}, 'validators': {class: frozenset(kwargs)}}"""
    global _TABLE
    if _TABLE is not None:
        return _TABLE
    d = _mm_dir()
    ftree = ast.parse((d / "fields.py").read_text())
    classes: dict[str, ast.ClassDef] = {n.name: n for n in ftree.body if isinstance(n, ast.ClassDef)}
    aliases = {t.id: n.value.id for n in ftree.body if isinstance(n, ast.Assign) and isinstance(n.value, ast.Name) for t in n.targets if isinstance(t, ast.Name) and n.value.id in classes}
    own: dict[str, dict[str, frozenset]] = {}
    for name, c in classes.items():
        keys: dict[str, frozenset] = {}
        for n in ast.walk(c):
            if isinstance(n, ast.Call) and isinstance(n.func, ast.Attribute) and n.func.attr == "make_error" and (n.args or any(k.arg == "key" for k in n.keywords)):
                k0 = n.args[0] if n.args else next(k.value for k in n.keywords if k.arg == "key")
                if not (isinstance(k0, ast.Constant) and isinstance(k0.value, str)):
                    continue
                kws = frozenset(k.arg for k in n.keywords if k.arg not in (None, "key"))
                keys[k0.value] = kws if k0.value not in keys else keys[k0.value] & kws
        own[name] = keys

    def chain(name: str, seen=()) -> dict[str, frozenset]:
        out: dict[str, frozenset] = {}
        c = classes.get(name)
        if c is None or name in seen:
            return out
        for b in c.bases:
            bn = b.id if isinstance(b, ast.Name) else b.attr if isinstance(b, ast.Attribute) else None
            if bn:
                for k, v in chain(bn, seen + (name,)).items():
                    out[k] = v if k not in out else out[k] & v
        for k, v in own[name].items():
            out[k] = v if k not in out else out[k] & v
        return out

    fields = {name: chain(name) for name in classes}
    vtree = ast.parse((d / "validate.py").read_text())
    validators: dict[str, frozenset] = {}
    for c in [n for n in vtree.body if isinstance(n, ast.ClassDef)]:
        kws = None
        for n in ast.walk(c):
            if isinstance(n, ast.Call) and isinstance(n.func, ast.Attribute) and n.func.attr == "format" and "error" in norm(n.func.value):
                k = frozenset(x.arg for x in n.keywords if x.arg)
                kws = k if kws is None else kws & k
        if kws is not None:
            validators[c.name] = kws
    _TABLE = {"fields": fields, "aliases": aliases, "validators": validators}
    return _TABLE


def placeholders(template: str):
    """(named placeholders, has positional) of a str.format template; None when it cannot be parsed."""
    named, positional = set(), False
    try:
        for _, fname, spec, _conv in string.Formatter().parse(template):
            if fname is None:
                continue
            head = fname.split(".")[0].split("[")[0]
            if head == "" or head.isdigit():
                positional = True
            else:
                named.add(head)
            if spec and "{" in spec:
                for _, f2, _s, _c in string.Formatter().parse(spec):
                    if f2:
                        named.add(f2.split(".")[0].split("[")[0])
    except ValueError:
        return None
    return named, positional


def _field_calls(ctx, schema):
    """(attribute name, module, declaring Call) for every field declared on the schema class (constants followed)."""
    eea = ctx.eea()
    for c in schema.repo_mro():
        for name, val in c.attr_order:
            fe = eea.field_expr(c.module, val)
            if fe is not None:
                yield name, fe[0], fe[1]


def _nested_calls(call: ast.Call):
    """Field / validator constructor calls nested in a declaration (Dict(keys=..., values=...), validate=[...])."""
    for n in ast.walk(call):
        if isinstance(n, ast.Call):
            yield n


def template1(ctx, chk, schemas: list[str], rule: str = "TEMPLATE-1") -> None:
    chk.rule(rule, "custom error texts of the schema fields and validators (error_messages={...}, error='...') use only the placeholders marshmallow supplies for that error (read from the installed marshmallow sources): an unsupplied placeholder raises KeyError / IndexError inside Schema.load instead of a validation error")
    tab = library_table()
    prog = ctx.prog
    n = 0
    for sfq in schemas:
        schema = ctx.cls(sfq)
        for fname, fm, decl in _field_calls(ctx, schema):
            for call in _nested_calls(decl):
                d = prog.resolve_expr(fm, call.func) if isinstance(call.func, (ast.Name, ast.Attribute)) else None
                ext = d.obj if d is not None and d.kind == "external" else None
                cls_name = None
                kind = None
                if isinstance(ext, str) and ext.startswith("marshmallow") and ".validate." in ext + ".":
                    cls_name, kind = ext.rsplit(".", 1)[-1], "validator"
                elif isinstance(ext, str) and ext.startswith("marshmallow"):
                    cls_name, kind = tab["aliases"].get(ext.rsplit(".", 1)[-1], ext.rsplit(".", 1)[-1]), "field"
                elif d is not None and d.kind == "class" and any(isinstance(b, str) and b.startswith("marshmallow.fields") for b in d.obj.mro()):
                    base = next(b for b in d.obj.mro() if isinstance(b, str) and b.startswith("marshmallow.fields"))
                    cls_name, kind = tab["aliases"].get(base.rsplit(".", 1)[-1], base.rsplit(".", 1)[-1]), "field"
                if kind is None:
                    continue
                for kw in call.keywords:
                    if kind == "field" and kw.arg == "error_messages":
                        if not isinstance(kw.value, ast.Dict):
                            raise AnalysisError(f"{rule}: error_messages of {sfq}.{fname} is not a dict display")
                        supplied = tab["fields"].get(cls_name)
                        if supplied is None:
                            raise AnalysisError(f"{rule}: field class {cls_name} not found in the installed marshmallow")
                        for k, v in zip(kw.value.keys, kw.value.values):
                            if not (isinstance(k, ast.Constant) and isinstance(v, ast.Constant) and isinstance(v.value, str)):
                                raise AnalysisError(f"{rule}: non-literal error message on {sfq}.{fname}")
                            n += 1
                            chk.instance(rule)
                            key = f"{sfq}.{fname}::error_messages[{k.value!r}]"
                            ph = placeholders(v.value)
                            loc = f"{fm.relpath}:{v.lineno}"
                            if k.value not in supplied:
                                chk.ok(rule, key, f"{cls_name} never raises the error {k.value!r}: the text is unused", loc, sample=False)
                                continue
                            if ph is None:
                                chk.refute(rule, key, f"the template {v.value!r} is not a valid format string: formatting it raises ValueError inside Schema.load", loc)
                                continue
                            named, pos = ph
                            missing = sorted(named - supplied[k.value])
                            if missing or pos:
                                chk.refute(rule, key, f"{cls_name} raises its {k.value!r} error with the keywords {sorted(supplied[k.value]) or 'none'}; the template {v.value!r} also needs {missing if missing else 'a positional argument'}: str.format raises {'KeyError' if missing else 'IndexError'} inside Schema.load, which is not a ValidationError and so is not mapped to the library's own error", loc)
                            else:
                                chk.ok(rule, key, f"placeholders {sorted(named)} are supplied by {cls_name}.make_error({k.value!r}, ...)", loc, sample=n <= 2)
                    if kind == "validator" and kw.arg == "error" and cls_name in tab["validators"]:
                        if isinstance(kw.value, ast.Constant) and kw.value.value is None:
                            continue
                        if not (isinstance(kw.value, ast.Constant) and isinstance(kw.value.value, str)):
                            raise AnalysisError(f"{rule}: non-literal error text of validator {cls_name} on {sfq}.{fname}")
                        n += 1
                        chk.instance(rule)
                        key = f"{sfq}.{fname}::{cls_name}(error=...)"
                        loc = f"{fm.relpath}:{kw.value.lineno}"
                        ph = placeholders(kw.value.value)
                        if ph is None:
                            chk.refute(rule, key, f"the template {kw.value.value!r} is not a valid format string", loc)
                            continue
                        named, pos = ph
                        missing = sorted(named - tab["validators"][cls_name])
                        if missing or pos:
                            chk.refute(rule, key, f"validate.{cls_name} formats its error text with {sorted(tab['validators'][cls_name])}; the template {kw.value.value!r} also needs {missing if missing else 'a positional argument'}: KeyError / IndexError inside Schema.load for a value that fails the validator", loc)
                        else:
                            chk.ok(rule, key, f"placeholders {sorted(named)} are supplied by validate.{cls_name}", loc, sample=n <= 2)
    chk.notes[f"{rule}:templates"] = n
    chk.notes[f"{rule}:library"] = f"marshmallow at {_mm_dir()} ({len(tab['fields'])} field classes, {len(tab['validators'])} validators read)"
