"""C11 Node ids handed out are fresh, in range, and never handed out twice."""

from __future__ import annotations

import ast

from ..cfg import CFG, has_await
from ..model import AnalysisError, norm
from ..prov import Canon, message_param
from . import sleepbuf as sb, tables
from .common import Ctx, fkey


def run(ctx: Ctx, chk) -> None:
    chk.assume("A1", "A3")
    I = ctx.I
    cells = tables.handler_cells(ctx)
    done = set()
    for V in ctx.versions:
        idreq = None
        for v, n in I.folder.enum_canonical(I.vclass(V, "Internal")).items():
            if n == "I_ID_REQUEST":
                idreq = v
        cal = cells[V].get(("internal", idreq))
        if cal is None:
            chk.rule("FRESH-1", "")
            chk.instance("FRESH-1")
            chk.refute("FRESH-1", "handle_i_id_request::missing", f"protocol {V} has no handler for id requests", I.vmod(V).relpath, version=V)
            continue
        f = cal.chain()[-1].func
        if f in done:
            continue
        done.add(f)
        chk.run_rule(lambda c, k, f=f, V=V: check_allocator(c, k, f, V), ctx)
    if not done:
        raise AnalysisError("anchor vanished: id request handler")
    # "the answer is addressed like the request": the reply is constructed with the request's ids (ORDER-ID above);
    # that only reaches the wire if encoding writes the message's own field values
    from . import c01

    chk.run_rule(lambda c, k: c01.encid1(c, k, "ENC-ID-1"), ctx)
    chk.run_rule(id_keep, ctx)


def check_allocator(ctx: Ctx, chk, f, V: str) -> None:
    I = ctx.I
    cn = Canon(I, f)
    g = CFG(f.node)
    max_id = I.folder.plain(I.folder.const(ctx.module("aiomysensors.model.const"), "MAX_NODE_ID"))
    # the statement's own number: ids 1..254 can be handed out (255 is the broadcast address)
    chk.rule("RANGE-1", "every id that can be handed out lies in 1..254, and 254 itself can be handed out")
    chk.instance("RANGE-1")
    cm = ctx.module("aiomysensors.model.const")
    if max_id == 254:
        chk.ok("RANGE-1", "aiomysensors.model.const.MAX_NODE_ID", "MAX_NODE_ID folds to 254", cm.relpath, sample=False)
    else:
        chk.refute("RANGE-1", "aiomysensors.model.const.MAX_NODE_ID", f"MAX_NODE_ID evaluates to {max_id!r}, the statement's highest node id is 254: {'the too-many-nodes error is raised while id ' + str(max_id + 1) + '..254 are still free' if isinstance(max_id, int) and max_id < 254 else 'ids outside 1..254 can be handed out'}", cm.relpath)
    # ---- locate the id variable: the key of the store into gateway.nodes
    stores = [n for n in ctx.own_nodes(f) if isinstance(n, ast.Assign) and any(isinstance(t, ast.Subscript) and cn.canon(t.value) == "gateway.nodes" for t in n.targets)]  # also through a local alias of the registry
    if len(stores) != 1:
        raise AnalysisError(f"C11: expected one store into gateway.nodes in {f.fq}, found {len(stores)}")
    store = stores[0]
    tgt = [t for t in store.targets if isinstance(t, ast.Subscript)][0]
    if not isinstance(tgt.slice, ast.Name):
        raise AnalysisError(f"C11: registry key `{norm(tgt.slice)}` is not a local variable")
    idv = tgt.slice.id
    la = I.local_assigns(f).get(idv) or []
    if not la or not all(isinstance(v, ast.expr) for v in la):
        raise AnalysisError(f"C11: `{idv}` is not bound by plain assignments in {f.fq}")
    la = sorted(la, key=lambda v: (v.lineno, v.col_offset))
    alloc = la[0]
    # further assignments (a fallback when the first candidate is out of range): each must itself be a fresh id in 1..MAX
    for extra in la[1:]:
        pick = range_pick(ctx, f, extra)
        if pick is None:
            raise AnalysisError(f"C11: `{idv}` is assigned more than once in {f.fq} and `{norm(extra)[:60]}` is not a recognised allocation")
        lo, hi, has_filter = pick
        chk.rule("RANGE-1", f"every id that can be handed out lies in 1..{max_id}")
        chk.instance("RANGE-1")
        k = f"{f.fq}::{norm(extra)[:60]}::range"
        if lo < 1 or hi - 1 > max_id:
            chk.refute("RANGE-1", k, f"the fallback `{idv} = {norm(extra)[:60]}` picks from [{lo}, {hi - 1}]: an id outside 1..{max_id} (0 is the gateway itself, 255 the broadcast address) can be handed out", ctx.loc(f, extra))
        else:
            chk.ok("RANGE-1", k, f"fallback candidates lie in [{lo}, {hi - 1}]", ctx.loc(f, extra))
        chk.rule("FRESH-1", "the id handed out is not a key of the registry")
        chk.instance("FRESH-1")
        k = f"{f.fq}::{norm(extra)[:60]}::fresh"
        if has_filter:
            chk.ok("FRESH-1", k, "candidates are filtered by `not in gateway.nodes`", ctx.loc(f, extra))
        else:
            chk.refute("FRESH-1", k, f"the fallback `{norm(extra)[:60]}` does not exclude registered ids", ctx.loc(f, extra))
    search = search_shape(ctx, f, alloc)
    if search is not None:
        check_search_allocator(ctx, chk, f, g, idv, alloc, store, search, max_id)
    else:
        # ---- FRESH-1
        rule = "FRESH-1"
        chk.rule(rule, "the id handed out is max(registered ids) + c with constant c >= 1 (strictly above every key), or 1 when the registry is empty")
        chk.instance(rule)
        key = f"{f.fq}::{idv}"
        verdict, why = fresh_shape(cn.tree(alloc))  # named constants folded, locals written out
        if verdict is True:
            chk.ok(rule, key, f"`{norm(alloc)}`: {why}", ctx.loc(f, alloc))
        elif verdict is False:
            chk.refute(rule, key, f"`{idv} = {norm(alloc)}`: {why}", ctx.loc(f, alloc))
        else:
            raise AnalysisError(f"FRESH-1: allocation `{norm(alloc)}` is not of a recognised shape")
        # ---- RANGE-1
        rule = "RANGE-1"
        chk.rule(rule, f"the too-many-nodes condition is definitely false for ids 1..{max_id} and definitely true for ids >= {max_id + 1}; it raises TooManyNodesError before any registry store or send")
        tests = [t for t in g.nodes if t.kind == "test" and any(isinstance(x, ast.Name) and x.id == idv for x in ast.walk(t.ast))]
        raises = [n for n in g.nodes if n.kind == "stmt" and isinstance(n.ast, ast.Raise) and n.ast.exc is not None and norm(n.ast.exc.func if isinstance(n.ast.exc, ast.Call) else n.ast.exc) == "TooManyNodesError"]
        chk.instance(rule)
        key = f"{f.fq}::range-check"
        if not raises:
            chk.refute(rule, key, f"no TooManyNodesError is raised: ids above {max_id} (255 is the broadcast address) are handed out", f.where)
        else:
            r = raises[0]
            ts = [t for t in tests if g.dominates(t, r)]
            if len(ts) != 1:
                raise AnalysisError("RANGE-1: range test not recognised")
            t = ts[0]
            iv = interval_truth(ctx, f, t.ast, idv)
            if iv is None:
                raise AnalysisError(f"RANGE-1: cannot evaluate `{norm(t.ast)}` over intervals")
            lo_true, hi_false = iv  # smallest id for which the test is true; largest for which it is false
            raise_on_true = any(lab == "t" and _leads_to(g, s, r) for s, lab in t.succ)
            if not raise_on_true:
                raise AnalysisError("RANGE-1: raise is not on the true branch of the range test")
            if lo_true == max_id + 1:
                chk.ok(rule, key, f"`{norm(t.ast)}` is false on [1, {max_id}] and true on [{max_id + 1}, inf)", ctx.loc(f, t.ast))
            elif lo_true <= max_id:
                chk.refute(rule, key, f"`{norm(t.ast)}` is already true for id {lo_true}: TooManyNodesError is raised although id {lo_true} (<= {max_id}) is still free above the highest registered id", ctx.loc(f, t.ast))
            else:
                chk.refute(rule, key, f"`{norm(t.ast)}` is still false for id {max_id + 1}: an id above {max_id} is handed out", ctx.loc(f, t.ast))
            # raise precedes every store / send
            chk.instance(rule)
            store_nodes = g.nodes_of(store)
            send_nodes = [n for n in g.nodes if n.kind == "stmt" and sb.is_send(n.ast)]
            early = [n for n in store_nodes + send_nodes if not g.dominates(t, n)]
            if early:
                chk.refute(rule, f"{f.fq}::raise-before-effects", f"`{early[0].text()[:60]}` is not dominated by the range check: the registry changes or a reply is written although the request fails", ctx.loc(f, early[0].ast))
            else:
                chk.ok(rule, f"{f.fq}::raise-before-effects", "the range check dominates the registry store and the reply", ctx.loc(f, t.ast))
    # ---- ORDER-ID
    rule = "ORDER-ID"
    chk.rule(rule, "the placeholder node is stored under the new id before the reply is sent, with no await between reading the registry and that store; the reply is addressed like the request, is an id response and carries str(id)")
    sends = [n for n in g.nodes if n.kind == "stmt" and sb.is_send(n.ast)]
    chk.instance(rule)
    key = f"{f.fq}::store-before-reply"
    snodes = g.nodes_of(store)
    if len(sends) != 1:
        chk.refute(rule, key, f"{len(sends)} replies are sent for one id request", f.where)
    else:
        s = sends[0]
        if all(g.dominates(sn, s) for sn in snodes) and snodes:
            chk.ok(rule, key, "gateway.nodes[id] = Node(id, …) dominates the reply", ctx.loc(f, store))
        else:
            chk.refute(rule, key, "the reply is written before the id is registered: while the write is suspended a second id request computes the same id", ctx.loc(f, s.ast))
    chk.instance(rule)
    key = f"{f.fq}::no-await-before-store"
    alloc_nodes = [n for n in g.nodes if n.kind == "stmt" and isinstance(n.ast, (ast.Assign, ast.AnnAssign)) and n.ast.value is alloc]
    bad = None
    for a in alloc_nodes:
        for x in g.nodes:
            if x.ast is not None and x.kind in ("stmt", "test", "iter", "with-enter") and x not in snodes and x not in alloc_nodes and any(has_await(p) for p in x.parts()):
                p1 = g.reach_avoiding([a], lambda y, x=x: y is x, lambda y: y in snodes)
                p2 = g.reach_avoiding([x], lambda y: y in snodes, lambda y: False)
                if p1 is not None and p2 is not None:
                    bad = x
    if any(has_await(p) for a in alloc_nodes for p in a.parts()) or any(has_await(p) for sn in snodes for p in sn.parts()):
        bad = alloc_nodes[0]
    if bad is None:
        chk.ok(rule, key, "no suspension point between reading the registry and registering the id", ctx.loc(f, alloc))
    else:
        chk.refute(rule, key, f"`{bad.text()[:60]}` suspends between computing the id and registering it: two concurrent requests receive the same id", ctx.loc(f, bad.ast))
    # stored node
    chk.instance(rule)
    key = f"{f.fq}::placeholder"
    val = store.value
    ok = isinstance(val, ast.Call) and norm(val.func) == "Node" and val.args and isinstance(val.args[0], ast.Name) and val.args[0].id == idv
    if ok:
        chk.ok(rule, key, f"Node({idv}, …) stored under {idv}", ctx.loc(f, store))
    else:
        chk.refute(rule, key, f"the placeholder `{norm(val)[:60]}` is not a Node carrying the new id", ctx.loc(f, store))
    # reply term
    if len(sends) == 1:
        chk.instance(rule)
        call = sb.is_send(sends[0].ast)
        term = cn.canon(call.args[0]) if call.args else ""
        idresp = None
        for v, n in I.folder.enum_canonical(I.vclass(V, "Internal")).items():
            if n == "I_ID_RESPONSE":
                idresp = v
        alloc_c = cn.canon(alloc)
        want = [
            f"Message(node_id=In.node_id, child_id=In.child_id, command=In.command, message_type={idresp}, payload=str({alloc_c}))",
            f"Message(node_id=In.node_id, child_id=In.child_id, command=In.command, ack=0, message_type={idresp}, payload=str({alloc_c}))",
            f"Message(node_id=In.node_id, child_id=In.child_id, command=3, message_type={idresp}, payload=str({alloc_c}))",
        ]
        # when the id variable has several bindings it is not written out by the canonical form
        want += [w.replace(f"str({alloc_c})", f"str({idv})") for w in want]
        key = f"{f.fq}::reply"
        flag = sb.send_buffered_flag(call)
        if term in want and flag is False:
            chk.ok(rule, key, f"reply = Message(In.node_id, In.child_id, In.command, I_ID_RESPONSE, str({idv})) unbuffered", ctx.loc(f, call))
        else:
            chk.refute(rule, key, f"the reply is `{term[:160]}` (buffering {flag}); expected an id response addressed like the request carrying str({idv}), sent unbuffered", ctx.loc(f, call))


def range_pick(ctx: Ctx, f, e: ast.expr):
    """`<list of free ids>[k]` / `min(...)` / `next(...)` over `[i for i in <constant range> if i not in gateway.nodes]`
    -> (lo, hi, has_filter) of the range the pick is drawn from."""
    sh = search_shape(ctx, f, e)
    if sh is not None:
        return sh[0], sh[1], sh[3]
    cn = Canon(ctx.I, f, "")
    t = cn.tree(e)
    src = None
    if isinstance(t, ast.Subscript) and isinstance(t.slice, (ast.Constant, ast.UnaryOp)):
        src = t.value
    elif isinstance(t, ast.Call) and isinstance(t.func, ast.Name) and t.func.id in ("min", "max") and len(t.args) == 1:
        src = t.args[0]
    if not isinstance(src, (ast.ListComp, ast.GeneratorExp, ast.SetComp)) or len(src.generators) != 1:
        return None
    gen = src.generators[0]
    if not (isinstance(gen.target, ast.Name) and isinstance(src.elt, ast.Name) and src.elt.id == gen.target.id):
        return None
    it = gen.iter
    lo = hi = None
    mod = f.module
    hops = 0
    while isinstance(it, ast.Name) and hops < 3:
        # a module-level constant holding the range
        hops += 1
        d = ctx.prog.resolve_name(mod, it.id)
        if d is None or d.kind != "const":
            break
        mod, it = d.module, d.obj
    if isinstance(it, ast.Call) and isinstance(it.func, ast.Name) and it.func.id == "range" and 1 <= len(it.args) <= 2:
        try:
            vals = [ctx.folder.plain(ctx.folder.fold(mod, a)) for a in it.args]
        except Exception:  # noqa: BLE001
            return None
        lo, hi = (0, vals[0]) if len(vals) == 1 else (vals[0], vals[1])
    else:
        try:
            v = ctx.folder.fold(f.module, it)
        except Exception:  # noqa: BLE001
            return None
        if isinstance(v, range) and v.step == 1:
            lo, hi = v.start, v.stop
        elif isinstance(v, (tuple, list, set, frozenset)) and v and all(isinstance(x, int) for x in v):
            lo, hi = min(v), max(v) + 1
        else:
            return None
    var = gen.target.id
    has_filter = any(isinstance(c, ast.Compare) and len(c.ops) == 1 and isinstance(c.ops[0], ast.NotIn) and norm(c.left) == var and Canon(ctx.I, f).canon(c.comparators[0]) == "gateway.nodes" for c in gen.ifs)
    return lo, hi, has_filter


def id_keep(ctx: Ctx, chk) -> None:
    rule = "ID-KEEP-1"
    chk.rule(rule, "an id that was handed out stays registered: nothing removes an entry from the node registry (freshness is 'differs from every registered id', so an id that is unregistered again - e.g. because the reply could not be written after the bytes had left - is handed out a second time)")
    from .c04 import NODE_T

    n = 0
    for f in ctx.prog.all_functions():
        if f.module.name.startswith("aiomysensors.cli"):
            continue
        for node in ctx.own_nodes(f):
            tgt = None
            if isinstance(node, ast.Delete):
                for t in node.targets:
                    if isinstance(t, ast.Subscript):
                        tgt = t.value
            elif isinstance(node, ast.Call) and isinstance(node.func, ast.Attribute) and node.func.attr in ("pop", "popitem", "clear"):
                tgt = node.func.value
            if tgt is None:
                continue
            t = ctx.prog.type_of(f.module, tgt) or ""
            if not t.startswith((f"builtins.dict[builtins.int, {NODE_T}", f"dict[int, {NODE_T}", f"dict[builtins.int, {NODE_T}")):
                continue
            n += 1
            chk.instance(rule)
            chk.refute(rule, fkey(f, node), f"`{norm(node)[:60]}` in {f.qualname} removes a node from the registry: its id becomes free again and the allocator hands it to another node", ctx.loc(f, node))
    chk.instance(rule)
    if n == 0:
        chk.ok(rule, "registry::grow-only", "no statement removes an entry of the node registry", "src/aiomysensors")


def search_shape(ctx: Ctx, f, alloc: ast.expr):
    """`next((i for i in range(a, b) if i not in gateway.nodes)[, default])` -> (a, b, default expr | None, has_filter)."""
    if not (isinstance(alloc, ast.Call) and isinstance(alloc.func, ast.Name) and alloc.func.id == "next" and 1 <= len(alloc.args) <= 2 and isinstance(alloc.args[0], ast.GeneratorExp)):
        return None
    ge = alloc.args[0]
    if len(ge.generators) != 1 or not isinstance(ge.generators[0].target, ast.Name) or not (isinstance(ge.elt, ast.Name) and ge.elt.id == ge.generators[0].target.id):
        return None
    gen = ge.generators[0]
    it = gen.iter
    if not (isinstance(it, ast.Call) and isinstance(it.func, ast.Name) and it.func.id == "range" and 1 <= len(it.args) <= 2):
        return None
    try:
        vals = [ctx.folder.plain(ctx.folder.fold(f.module, a)) for a in it.args]
    except Exception:  # noqa: BLE001
        return None
    lo, hi = (0, vals[0]) if len(vals) == 1 else (vals[0], vals[1])
    v = gen.target.id
    has_filter = any(isinstance(c, ast.Compare) and len(c.ops) == 1 and isinstance(c.ops[0], ast.NotIn) and norm(c.left) == v and Canon(ctx.I, f).canon(c.comparators[0]) == "gateway.nodes" for c in gen.ifs)
    return lo, hi, (alloc.args[1] if len(alloc.args) == 2 else None), has_filter


def check_search_allocator(ctx: Ctx, chk, f, g: CFG, idv: str, alloc, store, search, max_id: int) -> None:
    lo, hi, default, has_filter = search
    rule = "FRESH-1"
    chk.rule(rule, "the id handed out is max(registered ids) + c with constant c >= 1 (strictly above every key), or 1 when the registry is empty; or the first id of a range that is not a key of the registry")
    chk.instance(rule)
    key = f"{f.fq}::{idv}"
    if has_filter:
        chk.ok(rule, key, f"`{norm(alloc)[:80]}`: only ids that are not keys of the registry are candidates", ctx.loc(f, alloc))
    else:
        chk.refute(rule, key, f"`{idv} = {norm(alloc)[:80]}` does not exclude the ids already in the registry", ctx.loc(f, alloc))
    rule = "RANGE-1"
    chk.rule(rule, f"candidates are exactly 1..{max_id}; when none is free the request fails with TooManyNodesError before any registry store or send")
    chk.instance(rule)
    key = f"{f.fq}::range-check"
    if lo < 1 or hi - 1 > max_id:
        chk.refute(rule, key, f"ids are searched in [{lo}, {hi - 1}]: an id outside 1..{max_id} (0 is the gateway, 255 the broadcast address) can be handed out", ctx.loc(f, alloc))
    elif hi - 1 < max_id or lo > 1:
        chk.refute(rule, key, f"ids are searched in [{lo}, {hi - 1}] only: TooManyNodesError is raised although an id in 1..{max_id} is still free", ctx.loc(f, alloc))
    else:
        chk.ok(rule, key, f"candidates are range({lo}, {hi})", ctx.loc(f, alloc))
    chk.instance(rule)
    key = f"{f.fq}::exhausted"
    raises = [n for n in g.nodes if n.kind == "stmt" and isinstance(n.ast, ast.Raise) and n.ast.exc is not None and norm(n.ast.exc.func if isinstance(n.ast.exc, ast.Call) else n.ast.exc) == "TooManyNodesError"]
    if default is None:
        chk.refute(rule, key, f"`{norm(alloc)[:60]}` has no default: when every id of the range is taken it raises StopIteration (a RuntimeError inside the coroutine), not the too-many-nodes error - a guard that counts registry entries does not prove that a free id exists (0 and 255 may or may not be registered)", ctx.loc(f, alloc))
        return
    dflt = norm(default)
    tests = [t for t in g.nodes if t.kind == "test" and norm(t.ast) in (f"{idv} is {dflt}", f"{idv} == {dflt}", f"not {idv}" if dflt in ("None", "0") else "")]
    ok = False
    for t in tests:
        for r in raises:
            if any(lab == "t" and _leads_to(g, s_, r) for s_, lab in t.succ):
                store_nodes = g.nodes_of(store)
                send_nodes = [n for n in g.nodes if n.kind == "stmt" and sb.is_send(n.ast)]
                if all(g.dominates(t, n) for n in store_nodes + send_nodes):
                    ok = True
    if ok:
        chk.ok(rule, key, f"`{idv} is {dflt}` -> TooManyNodesError dominates the registry store and the reply", ctx.loc(f, alloc))
    else:
        chk.refute(rule, key, f"an exhausted search yields {dflt}, which is not turned into TooManyNodesError before the registry store / the reply", ctx.loc(f, alloc))


def _leads_to(g: CFG, start, target) -> bool:
    return start is target or g.reach_avoiding([start], lambda x: x is target, lambda x: False, labels_skip=("exc",), from_succ=True) is not None or start is target


def fresh_shape(e: ast.expr):
    """(True, why) recognised-correct; (False, why) recognised-wrong; (None, '') unknown."""

    def max_plus(x):
        # max(gateway.nodes) + c
        if isinstance(x, ast.BinOp) and isinstance(x.op, ast.Add):
            a, b = x.left, x.right
            if isinstance(b, ast.Call):
                a, b = b, a
            if isinstance(a, ast.Call) and isinstance(a.func, ast.Name) and a.func.id == "max" and len(a.args) == 1 and norm(a.args[0]) in ("gateway.nodes", "gateway.nodes.keys()") and isinstance(b, ast.Constant) and isinstance(b.value, int):
                return b.value
        return None

    if isinstance(e, ast.IfExp) and norm(e.test) in ("gateway.nodes", "len(gateway.nodes) > 0", "len(gateway.nodes)"):
        c = max_plus(e.body)
        if c is not None:
            empty = e.orelse.value if isinstance(e.orelse, ast.Constant) else None
            if c < 1:
                return False, f"max(registered) + {c} is not above the highest registered id: an id in use is handed out again"
            if empty != 1:
                return False, f"with an empty registry the id is {empty!r}; the first id must be 1 (0 is the gateway, 255 broadcast)"
            return True, "max(registered) + 1, or 1 when the registry is empty"
        if isinstance(e.body, ast.Call) and norm(e.body.func) == "max":
            return False, "max(registered) is itself a registered id"
    if isinstance(e, ast.BinOp) and isinstance(e.op, ast.Add):
        txt = norm(e)
        if "len(gateway.nodes)" in txt:
            return False, "a count-based id collides with a registered id as soon as the registry is sparse (ids 1 and 3 registered -> 3 is handed out again)"
        if max_plus(e) is not None:
            mx_ = e.left if isinstance(e.left, ast.Call) else e.right
            dk_ = [k for k in mx_.keywords if k.arg == "default"] if isinstance(mx_, ast.Call) else []
            if dk_ and isinstance(dk_[0].value, ast.Constant) and isinstance(dk_[0].value.value, int) and len(mx_.keywords) == 1:
                c_ = max_plus(e)
                if c_ < 1:
                    return False, f"max(registered) + {c_} is not above the highest registered id: an id in use is handed out again"
                if dk_[0].value.value + c_ != 1:
                    return False, f"with an empty registry the id is {dk_[0].value.value + c_!r}; the first id must be 1 (0 is the gateway, 255 broadcast)"
                return True, "max(registered, default=0) + 1: above every registered id, 1 when the registry is empty"
            return False, "max() of an empty registry raises ValueError: the empty case is not handled"
    if isinstance(e, ast.Call) and norm(e.func) == "len":
        return False, "a count-based id collides with registered ids"
    # "the key inserted last" is not the highest key: next(reversed(d)), list(d)[-1], d.popitem(), tuple(d)[-1] ...
    txt_all = norm(e)
    for pat in ("reversed(gateway.nodes", "list(gateway.nodes)[-1]", "tuple(gateway.nodes)[-1]", "[*gateway.nodes][-1]", "list(gateway.nodes.keys())[-1]", "gateway.nodes.popitem"):
        if pat in txt_all:
            return False, "the id is derived from the key inserted last, which is the highest one only while nodes register in ascending order: a statically addressed node 11 presenting before node 10 makes 11 be handed out although it is registered"
    if isinstance(e, ast.Call) and norm(e.func) == "max" and len(e.args) >= 1:
        return False, "max(registered) is itself a registered id"
    return None, ""


def interval_truth(ctx: Ctx, f, test: ast.expr, var: str):
    """For `var <op> CONST` (or CONST <op> var): (smallest value making it true, ...) over integers >= 1,
    assuming the test is monotone (false then true)."""
    if not (isinstance(test, ast.Compare) and len(test.ops) == 1):
        return None
    a, op, b = test.left, test.ops[0], test.comparators[0]

    def const(x):
        try:
            v = ctx.folder.plain(ctx.folder.fold(f.module, x))
            return v if isinstance(v, int) else None
        except Exception:  # noqa: BLE001
            return None

    if isinstance(a, ast.Name) and a.id == var and isinstance(op, ast.NotIn):
        # `var not in range(lo, hi)` with a constant range that starts at or below 1: true from hi upwards (the values
        # considered are >= 1)
        try:
            r = ctx.folder.plain(ctx.folder.fold(f.module, b))
        except Exception:  # noqa: BLE001
            r = None
        if isinstance(r, range) and r.step == 1 and r.start <= 1 < r.stop:
            return r.stop, r.stop - 1
        return None
    if isinstance(a, ast.Name) and a.id == var:
        c = const(b)
        if c is None:
            return None
        if isinstance(op, ast.Gt):
            return c + 1, c
        if isinstance(op, ast.GtE):
            return c, c - 1
        if isinstance(op, ast.Eq):
            return c, c - 1  # true only at c: treated as threshold c (values above slip through: reported by the caller as too late)
        return None
    if isinstance(b, ast.Name) and b.id == var:
        c = const(a)
        if c is None:
            return None
        if isinstance(op, ast.Lt):
            return c + 1, c
        if isinstance(op, ast.LtE):
            return c, c - 1
        return None
    return None
