"""C16 Gateway context: load on entry, periodic and final save, no leftovers."""

from __future__ import annotations

import ast

from ..cfg import CFG
from ..model import AnalysisError, Unfoldable, norm
from . import lifecycle
from .common import Ctx, callee_names, fkey

GW = "aiomysensors.gateway.Gateway"
PERS = "aiomysensors.persistence.Persistence"


def run(ctx: Ctx, chk) -> None:
    chk.assume("A1", "A3", "A5")
    chk.run_rule(enter_order, ctx)
    chk.run_rule(life1_rule, ctx)
    chk.run_rule(life2, ctx)
    chk.run_rule(life3, ctx)
    chk.run_rule(stop1, ctx)
    chk.run_rule(cadence1, ctx)
    chk.run_rule(tasks1, ctx)
    chk.run_rule(save_total, ctx)
    chk.run_rule(saver_esc, ctx)
    # the periodic and the final save cannot fail because of what the registry contains (same rule as C15)
    from .c15 import inplace3

    chk.run_rule(inplace3, ctx)
    from .orderedio import ordered_io

    chk.run_rule(ordered_io, ctx)
    from .orderedio import executor_alive

    chk.run_rule(executor_alive, ctx)
    chk.run_rule(disc1, ctx)
    from . import connleak

    chk.run_rule(connleak.conn_leak, ctx)


def life1_rule(ctx: Ctx, chk) -> None:
    rule = "LIFE-1"
    chk.rule(rule, "a task that is cancelled and then awaited does not re-raise CancelledError into the awaiter (protected await, or a body that absorbs cancellation at every suspension point)")
    pers = ctx.cls(PERS)
    funcs = []
    for fl in pers.mro_methods().values():
        for f in fl:
            funcs.append(f)
            funcs.extend(f.nested.values())
    # a canceller written as a private callable class / function of the module instead of a closure
    for f in ctx.prog.all_functions():
        if f.module is pers.module and f not in funcs and f.cls is not pers:
            funcs.append(f)
    n = lifecycle.life1(ctx, chk, rule, funcs)
    chk.floor(rule, "cancel-then-await sites in Persistence", n, 1)


def _no_exit_stack(ctx: Ctx, f, rule: str) -> None:
    """Callback-based teardown (contextlib.ExitStack / AsyncExitStack) is outside what the path rules model: the
    statements that run on failure are data (callbacks pushed earlier), not control flow.  Say so instead of judging."""
    for n in ctx.own_nodes(f):
        if isinstance(n, ast.Call) and norm(n.func).rsplit(".", 1)[-1] in ("AsyncExitStack", "ExitStack"):
            raise AnalysisError(f"{rule}: {f.qualname} tears down through an exit stack (callbacks registered at run time) - not modelled by the path rules")
        if isinstance(n, ast.Attribute) and n.attr in ("aclose", "pop_all", "push_async_callback", "enter_async_context"):
            raise AnalysisError(f"{rule}: {f.qualname} tears down through an exit stack (callbacks registered at run time) - not modelled by the path rules")


_CN = [None]


def _use(ctx: Ctx, f) -> None:
    """Texts in this module are compared after writing out walrus targets and locals bound once
    (`if persistence := self.persistence: await persistence.stop()`), relative to function f."""
    from ..prov import Canon

    _CN[0] = Canon(ctx.I, f, "")


def _t(e) -> str:
    if _CN[0] is None:
        return norm(e)
    try:
        return _CN[0].canon(e)
    except Exception:  # noqa: BLE001
        return norm(e)


def _calls(g: CFG, pred):
    return [n for n in g.nodes if n.ast is not None and n.kind in ("stmt", "test", "with-enter") and any(isinstance(x, ast.Call) and pred(x) for p in n.parts() for x in ast.walk(p))]


def enter_order(ctx: Ctx, chk) -> None:
    rule = "ENTER-ORDER"
    chk.rule(rule, "entering the context awaits persistence.load() to completion before persistence.start() (the saver's first save would otherwise truncate the file being read), and awaits transport.connect()")
    gw = ctx.cls(GW)
    f = gw.find_method("__aenter__")
    if f is None:
        raise AnalysisError("anchor vanished: Gateway.__aenter__")
    f = ctx.inl(f)
    _use(ctx, f)
    _no_exit_stack(ctx, f, rule)
    g = CFG(f.node)
    loads = _calls(g, lambda c: _t(c.func) == "self.persistence.load")
    starts = _calls(g, lambda c: _t(c.func) == "self.persistence.start")
    conns = _calls(g, lambda c: _t(c.func) == "self.transport.connect")
    chk.instance(rule)
    key = f"{f.fq}::load-before-start"
    if not loads or not starts:
        chk.refute(rule, key, f"__aenter__ does not {'load the persistence file' if not loads else 'start the periodic saver'}", f.where)
    elif all(any(g.dominates(l, s) for l in loads) for s in starts) and all(_awaited(ctx, n, "self.persistence.load") for n in loads) and all(_awaited(ctx, n, "self.persistence.start") for n in starts):
        chk.ok(rule, key, "await persistence.load() dominates await persistence.start()", ctx.loc(f, starts[0].ast))
    else:
        chk.refute(rule, key, "the saver is started before the file has been loaded (or one of the two is not awaited): the first scheduled save overwrites the file with the still empty registry", ctx.loc(f, starts[0].ast))
    chk.instance(rule)
    key = f"{f.fq}::connect"
    if conns and all(_awaited(ctx, n, "self.transport.connect") for n in conns):
        # on every normal path
        p = g.reach_avoiding([g.entry], lambda x: x is g.exit, lambda x: x in conns, labels_skip=("exc",))
        if p is None:
            chk.ok(rule, key, "await transport.connect() on every normal path", ctx.loc(f, conns[0].ast))
        else:
            chk.refute(rule, key, "a normal path through __aenter__ skips transport.connect()", f.where)
    else:
        chk.refute(rule, key, "__aenter__ does not await transport.connect()", f.where)
    # persistence steps are unconditional given persistence
    chk.instance(rule)
    key = f"{f.fq}::persistence-steps"
    ok = True
    for n in loads + starts:
        from .sleepbuf import branch_polarity

        # tests the step really depends on (one branch of the test cannot reach it), not merely earlier tests
        tests = [t for t in g.nodes if t.kind == "test" and g.dominates(t, n) and branch_polarity(g, t, [n]) is not None]
        if any(_t(t.ast) not in PERS_POS + PERS_NEG for t in tests):
            ok = False
    if ok:
        chk.ok(rule, key, "conditional only on a configured persistence", f.where, sample=False)
    else:
        chk.refute(rule, key, "loading / starting the saver depends on more than `persistence is configured`", f.where)


def _awaited(ctx: Ctx, node, func_txt: str) -> bool:
    for p in node.parts():
        for x in ast.walk(p):
            if isinstance(x, ast.Await) and isinstance(x.value, ast.Call) and _t(x.value.func) == func_txt:
                return True
    return False


PERS_POS = ("self.persistence", "self.persistence is not None")
PERS_NEG = ("not self.persistence", "self.persistence is None")


def _is_persistence_test(t) -> bool:
    return t.kind == "test" and _t(t.ast) in PERS_POS + PERS_NEG


def _succ_feasible(n, configured: bool = True):
    """Successors, skipping the `persistence not configured` branch."""
    out = []
    for s, lab in n.succ:
        if configured and _is_persistence_test(n) and lab == ("f" if _t(n.ast) in PERS_POS else "t"):
            continue
        out.append((s, lab))
    return out


def _reach(g: CFG, starts, goal, avoid):
    seen = set()
    stack = [(s, (s,)) for s in starts]
    while stack:
        n, path = stack.pop()
        if n in seen:
            continue
        seen.add(n)
        if goal(n):
            return list(path)
        if avoid(n):
            continue
        for s, lab in _succ_feasible(n):
            if s not in seen:
                stack.append((s, path + (s,)))
    return None


def life2(ctx: Ctx, chk) -> None:
    rule = "LIFE-2"
    chk.rule(rule, "release on failed entry: after persistence.start() every statement of __aenter__ that can raise is covered by a handler/finally that stops the saver before the error propagates (no background task is left behind when connecting fails)")
    gw = ctx.cls(GW)
    f = ctx.inl(gw.find_method("__aenter__"))
    _use(ctx, f)
    _no_exit_stack(ctx, f, rule)
    g = CFG(f.node)
    starts = _calls(g, lambda c: _t(c.func) == "self.persistence.start")
    stops = _calls(g, lambda c: _t(c.func) in ("self.persistence.stop",) or _t(c.func).endswith("._cancel_save"))
    if not starts:
        return
    n = 0
    for s in starts:
        # nodes reachable after start completed normally
        after = set()
        stack = [x for x, lab in s.succ if lab != "exc"]
        while stack:
            x = stack.pop()
            if x in after:
                continue
            after.add(x)
            for y, lab in _succ_feasible(x):
                if lab != "exc":
                    stack.append(y)
        for x in sorted(after, key=lambda z: z.id):
            exc_succ = [y for y, lab in x.succ if lab == "exc"]
            if not exc_succ or x in stops or x.ast is None or x.kind in ("join", "dispatch"):
                continue
            if isinstance(x.ast, ast.Return) or (isinstance(x.ast, ast.Raise) and x.ast.exc is None):
                continue
            n += 1
            chk.instance(rule)
            key = fkey(f, x.ast) + "::covered"
            p = _reach(g, exc_succ, lambda z: z is g.raise_exit, lambda z: z in stops)
            if p is None:
                chk.ok(rule, key, "an exception here reaches the caller only through persistence.stop()", ctx.loc(f, x.ast))
            else:
                chk.refute(rule, key, f"if `{x.text()[:60]}` raises after the saver was started, the error leaves __aenter__ without stopping the saver: the background task keeps running and saving", ctx.loc(f, x.ast))
    chk.floor(rule, "may-raise statements after start()", n, 1)


def life3(ctx: Ctx, chk) -> None:
    rule = "LIFE-3"
    chk.rule(rule, "finally-discipline on exit: once transport.disconnect() has started, persistence.stop() executes on every exit of __aexit__, normal or exceptional (a failing disconnect must not skip the final save and the cancellation of the saver)")
    gw = ctx.cls(GW)
    f = gw.find_method("__aexit__")
    if f is None:
        raise AnalysisError("anchor vanished: Gateway.__aexit__")
    f = ctx.inl(f)
    _use(ctx, f)
    _no_exit_stack(ctx, f, rule)
    g = CFG(f.node)
    disc = _calls(g, lambda c: _t(c.func) == "self.transport.disconnect")
    stops = _calls(g, lambda c: _t(c.func) == "self.persistence.stop")
    chk.instance(rule)
    key = f"{f.fq}::disconnect"
    if not disc or not all(_awaited(ctx, d, "self.transport.disconnect") for d in disc):
        chk.refute(rule, key, "__aexit__ does not await transport.disconnect()", f.where)
        return
    p0 = g.reach_avoiding([g.entry], lambda x: x is g.exit, lambda x: x in disc, labels_skip=("exc",))
    if p0 is not None:
        chk.refute(rule, key, "a normal path through __aexit__ skips transport.disconnect()", f.where)
    else:
        chk.ok(rule, key, "await transport.disconnect() on every normal path", ctx.loc(f, disc[0].ast), sample=False)
    chk.instance(rule)
    key = f"{f.fq}::stop-on-every-exit"
    if not stops:
        chk.refute(rule, key, "__aexit__ never calls persistence.stop(): no final save, the saver keeps running", f.where)
        return
    bad = None
    for d in disc:
        starts = [s for s, lab in d.succ]
        if any(d2 for d2 in stops if g.dominates(d2, d)):
            continue  # stop happened before disconnect
        p = _reach(g, starts, lambda z: z is g.exit or z is g.raise_exit, lambda z: z in stops)
        if p is not None:
            bad = (d, p)
    if bad is None:
        chk.ok(rule, key, "every path from disconnect to an exit passes through persistence.stop()", ctx.loc(f, stops[0].ast))
    else:
        d, p = bad
        kind = "exceptional" if p[-1] is g.raise_exit else "normal"
        chk.refute(rule, key, f"a {kind} exit of __aexit__ is reachable from transport.disconnect() without persistence.stop() ({' -> '.join(g.path_text(p)[:4])}): when disconnect fails the final registry is not saved and the saver task is left running", ctx.loc(f, d.ast))


def _class_canceller(ctx: Ctx, f, tname: str) -> str | None:
    """`self._cancel_save = C(<task>)` with C a repository class whose __call__ cancels the task it stored:
    the closure form written as a callable class.  Returns a description or None."""
    from ..prov import Canon

    for x in ctx.own_nodes(f):
        if not (isinstance(x, ast.Assign) and norm(x.targets[0]) == "self._cancel_save" and isinstance(x.value, ast.Call) and isinstance(x.value.func, (ast.Name, ast.Attribute))):
            continue
        d = ctx.prog.resolve_expr(f.module, x.value.func)
        if d is None or d.kind != "class":
            continue
        c = d.obj
        call = c.find_method("__call__")
        init = c.find_method("__init__")
        if call is None or init is None:
            continue
        stored = ctx.I.stored_params(c)  # param -> attribute
        pos = init.positional_params[1:]
        given = dict(zip(pos, x.value.args))
        for k in x.value.keywords:
            if k.arg:
                given[k.arg] = k.value
        attrs = [stored[p] for p, a in given.items() if p in stored and isinstance(a, ast.Name) and a.id == tname]
        if not attrs:
            continue
        cn = Canon(ctx.I, call, "")
        selfn = call.positional_params[0]
        for n in ctx.own_nodes(call):
            if isinstance(n, ast.Call) and isinstance(n.func, ast.Attribute) and n.func.attr == "cancel" and cn.canon(n.func.value) in [f"{selfn}.{a}" for a in attrs]:
                return f"{c.name}({tname}) is installed as self._cancel_save; its __call__ cancels the stored task"
    return None


def stop1(ctx: Ctx, chk) -> None:
    rule = "STOP-1"
    chk.rule(rule, "Persistence.stop cancels the saver (when one was started) and ends with an awaited save() on every normal path; every task created by start() has a cancel site reachable from stop()")
    pers = ctx.cls(PERS)
    stop = pers.find_method("stop")
    start = pers.find_method("start")
    if stop is None or start is None:
        raise AnalysisError("anchor vanished: Persistence.start/stop")
    g = CFG(stop.node)
    saves = _calls(g, lambda c: norm(c.func) == "self.save")
    chk.instance(rule)
    key = f"{stop.fq}::final-save"
    p = g.reach_avoiding([g.entry], lambda x: x is g.exit, lambda x: x in saves, labels_skip=("exc",))
    if saves and p is None and all(_awaited(ctx, s, "self.save") for s in saves):
        chk.ok(rule, key, "every normal path ends through await self.save()", ctx.loc(stop, saves[0].ast))
    else:
        chk.refute(rule, key, "a normal path through Persistence.stop skips the final save (or it is not awaited)", stop.where)
    from ..prov import Canon

    cn = Canon(ctx.I, stop, "")

    def is_cancel(c: ast.Call) -> bool:
        # `self._cancel_save()` or a local bound to it (`if cancel := self._cancel_save: await cancel()`)
        return cn.canon(c.func) == "self._cancel_save"

    def unwalrus(e):
        return e.value if isinstance(e, ast.NamedExpr) else e

    cancels = _calls(g, is_cancel)
    chk.instance(rule)
    key = f"{stop.fq}::cancel"
    if cancels and all(any(isinstance(x, ast.Await) and isinstance(x.value, ast.Call) and is_cancel(x.value) for p_ in c.parts() for x in ast.walk(p_)) for c in cancels):
        from .sleepbuf import branch_polarity

        tests = [t for c in cancels for t in g.nodes if t.kind == "test" and g.dominates(t, c) and branch_polarity(g, t, [c]) is not None]
        if all(cn.canon(unwalrus(t.ast)) in ("self._cancel_save", "self._cancel_save is not None") for t in tests):
            chk.ok(rule, key, "awaits self._cancel_save() whenever a saver was started", ctx.loc(stop, cancels[0].ast))
        else:
            chk.refute(rule, key, "cancelling the saver depends on more than `a saver was started`", ctx.loc(stop, cancels[0].ast))
    else:
        chk.refute(rule, key, "Persistence.stop does not await the saver's cancel callback: the background task is left running", stop.where)
    # the cancel before the final save
    if cancels and saves:
        chk.instance(rule)
        if all(any(g.dominates(c, s) or not g.reach_avoiding([s], lambda x: x in cancels, lambda x: False) for c in cancels) for s in saves):
            chk.ok(rule, f"{stop.fq}::order", "the saver is cancelled before the final save", stop.where, sample=False)
    # create_task sites have a cancel reachable from stop
    sites = [(f, c) for f, c in lifecycle.create_task_sites(ctx) if f.cls is pers or (f.parent is not None and f.parent.cls is pers)]
    chk.floor(rule, "create_task sites in Persistence", len(sites), 1)
    for f, c in sites:
        chk.instance(rule)
        par = ctx.prog.parents.get(c)
        key = fkey(f, c) + "::cancellable"
        tname = norm(par.targets[0]) if isinstance(par, ast.Assign) else None
        ok = False
        if tname:
            for h in [f] + list(f.nested.values()):
                for n in ctx.own_nodes(h):
                    if isinstance(n, ast.Call) and norm(n.func) == f"{tname}.cancel":
                        # the function holding the cancel must be what stop() calls
                        stores = [x for x in ctx.own_nodes(f) if isinstance(x, ast.Assign) and norm(x.targets[0]) == "self._cancel_save" and norm(x.value) == h.name]
                        if stores or h is stop:
                            ok = True
                        else:
                            # the installed callback may reach the cancel through another nested helper it awaits
                            installed = {norm(x.value) for x in ctx.own_nodes(f) if isinstance(x, ast.Assign) and norm(x.targets[0]) == "self._cancel_save"}
                            reach = set(installed)
                            for _ in range(3):
                                for nm_ in list(reach):
                                    g_ = f.nested.get(nm_)
                                    if g_ is not None:
                                        reach |= {norm(x.value.func) for x in ctx.own_nodes(g_) if isinstance(x, ast.Await) and isinstance(x.value, ast.Call) and isinstance(x.value.func, ast.Name) and x.value.func.id in f.nested}
                            if h.name in reach:
                                ok = True
            if not ok and _class_canceller(ctx, f, tname):
                ok = True
        if ok:
            chk.ok(rule, key, f"{tname}.cancel() is installed as self._cancel_save and awaited by stop()", ctx.loc(f, c))
        else:
            chk.refute(rule, key, "the task created here has no cancel site reachable from Persistence.stop: it outlives the gateway context", ctx.loc(f, c))


def save_total(ctx: Ctx, chk) -> None:
    rule = "SAVE-TOTAL"
    chk.rule(rule, "Persistence.save writes on every call: every normal path through save() passes through the write of the serialised registry - no early return, no 'already saving' / 'unchanged' short cut (the final save of stop() must not be skippable by whatever state an interrupted periodic save left behind)")
    pers = ctx.cls(PERS)
    save = pers.find_method("save")
    if save is None:
        raise AnalysisError("anchor vanished: Persistence.save")
    fi = ctx.inl(save)
    g = CFG(fi.node)
    writes = [n for n in g.nodes if n.ast is not None and n.kind in ("stmt", "with-enter") and any(isinstance(x, ast.Call) and isinstance(x.func, ast.Attribute) and x.func.attr in ("write", "writelines", "dump") and ((ctx.prog.type_of(save.module, x.func.value) or "").find("aiofiles") >= 0 or (isinstance(x.func.value, ast.Name) and ctx.prog.aiofiles_with_target(save.module, fi.node, x.func.value.id))) for p_ in n.parts() for x in ast.walk(p_))]
    chk.instance(rule)
    key = f"{save.fq}::always-writes"
    if not writes:
        raise AnalysisError("SAVE-TOTAL: the file write of Persistence.save was not found")
    p = g.reach_avoiding([g.entry], lambda x: x is g.exit, lambda x: x in writes, labels_skip=("exc",), from_succ=False)
    if p is None:
        chk.ok(rule, key, "every normal path through save() writes the file", ctx.loc(save, writes[0].ast))
    else:
        chk.refute(rule, key, f"save() can return without writing ({' -> '.join(g.path_text(p)[1:5])}): the final save of stop() is skipped whenever that condition holds - e.g. a flag left set by a periodic save that was cancelled inside a file operation", ctx.loc(save, p[-2].ast if len(p) > 1 and p[-2].ast is not None else save.node))


def disc1(ctx: Ctx, chk) -> None:
    rule = "DISC-1"
    chk.rule(rule, "leaving the context disconnects the stream that entering it opened: disconnect() closes self.writer whenever it is set, and self.writer / self.reader are assigned only by __init__ and connect() (or cleared by disconnect() after the close) - no other code path can make disconnect() a no-op while the stream is still open")
    st = ctx.cls("aiomysensors.transport.StreamTransport")
    classes = []
    for c in st.repo_mro() + list(ctx.prog.subclasses(st)):  # base classes / mixins the stream state may live in
        if c not in classes:
            classes.append(c)
    n = 0
    for c in classes:
        for fl in c.methods.values():
            for f in fl:
                g = None
                for node in ctx.own_nodes(f):
                    if not isinstance(node, (ast.Assign, ast.AnnAssign, ast.AugAssign)):
                        continue
                    targets = node.targets if isinstance(node, ast.Assign) else [node.target]
                    flat = [x for t in targets for x in (t.elts if isinstance(t, (ast.Tuple, ast.List)) else [t])]
                    for t in flat:
                        if not (isinstance(t, ast.Attribute) and isinstance(t.value, ast.Name) and t.value.id == "self" and t.attr in ("writer", "reader")):
                            continue
                        n += 1
                        chk.instance(rule)
                        k = fkey(f, node) + f"::{t.attr}"
                        if f.name in ("__init__", "connect"):
                            chk.ok(rule, k, f"self.{t.attr} assigned by {f.name}", ctx.loc(f, node), sample=n <= 2)
                            continue
                        if f.name == "disconnect":
                            g = g or CFG(f.node)
                            closes = _calls(g, lambda c_: isinstance(c_.func, ast.Attribute) and c_.func.attr == "close")
                            sn = g.nodes_of(node)
                            if closes and all(any(g.dominates(cl, s_) for cl in closes) for s_ in sn):
                                chk.ok(rule, k, "cleared only after the stream was closed", ctx.loc(f, node))
                                continue
                            # cleared first, but the stream is kept in a local that is closed on every path on which it is set
                            aliases = set()
                            for a_ in ctx.own_nodes(f):
                                if isinstance(a_, ast.Assign) and len(a_.targets) == 1:
                                    tg, vl = a_.targets[0], a_.value
                                    pairs = list(zip(tg.elts, vl.elts)) if isinstance(tg, ast.Tuple) and isinstance(vl, ast.Tuple) and len(tg.elts) == len(vl.elts) else [(tg, vl)]
                                    for x_, y_ in pairs:
                                        if isinstance(x_, ast.Name) and norm(y_) == "self.writer" and a_.lineno <= node.lineno:
                                            aliases.add(x_.id)
                            acl = [cl for cl in closes if any(isinstance(x, ast.Call) and isinstance(x.func, ast.Attribute) and x.func.attr == "close" and isinstance(x.func.value, ast.Name) and x.func.value.id in aliases for p_ in cl.parts() for x in ast.walk(p_))]

                            def truth(tn, aliases=aliases):
                                te = tn.ast
                                if isinstance(te, ast.Compare) and len(te.ops) == 1 and isinstance(te.left, ast.Name) and te.left.id in aliases and norm(te.comparators[0]) == "None":
                                    return isinstance(te.ops[0], (ast.IsNot, ast.NotEq))
                                if isinstance(te, ast.Name) and te.id in aliases:
                                    return True
                                if isinstance(te, ast.UnaryOp) and isinstance(te.op, ast.Not) and isinstance(te.operand, ast.Name) and te.operand.id in aliases:
                                    return False
                                return None

                            if acl and g.reach_avoiding(sn, lambda x: x is g.exit, lambda x: x in acl, labels_skip=("exc",), truth=truth) is None:
                                chk.ok(rule, k, "the stream is kept in a local and closed on every path on which it was set", ctx.loc(f, node))
                                continue
                        chk.refute(rule, k, f"{f.qualname} assigns self.{t.attr} (`{norm(node)[:60]}`): after this, disconnect() finds no writer and returns without closing the stream that connect() opened - leaving the gateway context leaves the socket / serial port open", ctx.loc(f, node))
    chk.floor(rule, "assignments of the stream attributes", n, 2)


def _saver_bodies(ctx: Ctx) -> list:
    pers = ctx.cls(PERS)
    start = pers.find_method("start")
    bodies = []
    for g_, c in lifecycle.create_task_sites(ctx):
        if g_ is start and c.args and isinstance(c.args[0], ast.Call):
            fn = c.args[0].func
            if isinstance(fn, ast.Name) and fn.id in start.nested:
                bodies.append(start.nested[fn.id])
            elif isinstance(fn, ast.Attribute) and isinstance(fn.value, ast.Name) and fn.value.id == "self" and pers.find_method(fn.attr) is not None:
                bodies.append(pers.find_method(fn.attr))
    if not bodies:
        bodies = [f for f in start.nested.values() if any(isinstance(n, ast.While) for n in ctx.own_nodes(f))]
    return bodies


def saver_esc(ctx: Ctx, chk) -> None:
    rule = "SAVER-ESC"
    chk.rule(rule, "nothing but a failed file operation (PersistenceWriteError - disk faults are outside the statement's fault model) or cancellation ends the saver task: any other exception that can escape its body - e.g. RuntimeError from iterating the live registry across a suspension point while a handler registers a node - silently kills the periodic saving and is re-raised by stop() before the final save")
    from .common import escape_rule

    bodies = _saver_bodies(ctx)
    if len(bodies) != 1:
        raise AnalysisError("SAVER-ESC: saver body not recognised")
    f = bodies[0]
    eea = ctx.eea()
    pers = ctx.cls(PERS)
    esc = eea._apply_suppressions(eea.escapes_of(f, None, cls=pers))
    PWE = "aiomysensors.exceptions.PersistenceWriteError"
    escape_rule(ctx, chk, rule, [(f"saver task ({f.qualname})", esc)], lambda exc, site: eea.issub(exc, PWE) or exc == "asyncio.exceptions.CancelledError", eea)


def cadence1(ctx: Ctx, chk) -> None:
    rule = "CADENCE-1"
    chk.rule(rule, "the saver is `while True: save; sleep(K)` with K <= 900 s, saving first, with no exit other than cancellation")
    pers = ctx.cls(PERS)
    start = pers.find_method("start")
    # the saver body is the coroutine function start() hands to create_task: a closure of start or a method
    bodies = []
    for g_, c in lifecycle.create_task_sites(ctx):
        if g_ is start and c.args and isinstance(c.args[0], ast.Call):
            fn = c.args[0].func
            if isinstance(fn, ast.Name) and fn.id in start.nested:
                bodies.append(start.nested[fn.id])
            elif isinstance(fn, ast.Attribute) and isinstance(fn.value, ast.Name) and fn.value.id == "self" and pers.find_method(fn.attr) is not None:
                bodies.append(pers.find_method(fn.attr))
    if not bodies:
        bodies = [f for f in start.nested.values() if any(isinstance(n, ast.While) for n in ctx.own_nodes(f))]
    if len(bodies) != 1:
        raise AnalysisError("CADENCE-1: saver body not recognised")
    f = bodies[0]
    loops = [n for n in f.node.body if isinstance(n, ast.While)]
    if len(loops) != 1:
        raise AnalysisError("CADENCE-1: saver loop not recognised")
    lp = loops[0]
    chk.instance(rule)
    key = f"{f.fq}::loop"
    probs = []
    if not (isinstance(lp.test, ast.Constant) and lp.test.value is True):
        probs.append(f"the loop condition is `{norm(lp.test)}`, not `True`")
    def _is_save(n):
        if not (isinstance(n, ast.Await) and isinstance(n.value, ast.Call)):
            return False
        c = n.value
        if norm(c.func) == "self.save":
            return True
        # await asyncio.wait_for(self.save(), ...) / asyncio.shield(self.save()) still perform the save (TASKS-1 judges the wrapper)
        return norm(c.func).rsplit(".", 1)[-1] in ("wait_for", "shield") and c.args and isinstance(c.args[0], ast.Call) and norm(c.args[0].func) == "self.save"

    saves = [n for n in ast.walk(lp) if _is_save(n)]
    sleeps = [n for n in ast.walk(lp) if isinstance(n, ast.Await) and isinstance(n.value, ast.Call) and "asyncio.tasks.sleep" in callee_names(ctx, f, n.value)]
    if len(saves) != 1:
        probs.append(f"{len(saves)} saves per round")
    if len(sleeps) != 1:
        probs.append(f"{len(sleeps)} sleeps per round")
    if saves and sleeps and saves[0].lineno > sleeps[0].lineno:
        probs.append("the loop sleeps before the first save: nothing is saved on entry")
    if sleeps:
        a = sleeps[0].value.args[0] if sleeps[0].value.args else None
        try:
            k = ctx.folder.plain(ctx.folder.fold(f.module, a)) if a is not None else None
        except Unfoldable:
            k = None
        if not isinstance(k, (int, float)):
            raise AnalysisError(f"CADENCE-1: cannot fold the sleep interval `{norm(a) if a is not None else ''}`")
        if k > 900:
            probs.append(f"the interval is {k} s, more than 15 minutes")
        if k <= 0:
            probs.append(f"the interval is {k} s")
        chk.notes["save_interval_s"] = k
    # exits: break/return only inside except CancelledError
    for n in ast.walk(lp):
        if isinstance(n, (ast.Break, ast.Return)):
            cur = n
            inside = False
            while cur in ctx.prog.parents and cur is not lp:
                cur = ctx.prog.parents[cur]
                if isinstance(cur, ast.ExceptHandler) and lifecycle.handler_catches_cancel(cur):
                    inside = True
            if not inside:
                probs.append(f"`{norm(n)}` at line {n.lineno} leaves the loop without cancellation")
    # a conditional save
    for s_ in saves:
        cur = s_
        while cur in ctx.prog.parents and cur is not lp:
            cur = ctx.prog.parents[cur]
            if isinstance(cur, ast.If):
                probs.append("the periodic save is conditional")
    if probs:
        chk.refute(rule, key, "; ".join(probs), ctx.loc(f, lp))
    else:
        chk.ok(rule, key, f"while True: await self.save(); await asyncio.sleep({chk.notes.get('save_interval_s')})", ctx.loc(f, lp))
    # start() creates the task from this body
    chk.instance(rule)
    sites = [c for g_, c in lifecycle.create_task_sites(ctx) if g_ is start]
    key = f"{start.fq}::create_task"
    if len(sites) == 1 and sites[0].args and isinstance(sites[0].args[0], ast.Call) and norm(sites[0].args[0].func) in (f.name, f"self.{f.name}"):
        chk.ok(rule, key, f"asyncio.create_task({f.name}())", ctx.loc(start, sites[0]))
    else:
        chk.refute(rule, key, "Persistence.start does not run the saver body as a task", start.where)


TASK_MAKERS = {"asyncio.tasks.create_task": "create_task", "asyncio.tasks.ensure_future": "ensure_future", "asyncio.tasks.shield": "shield", "asyncio.base_events.BaseEventLoop.create_task": "loop.create_task", "asyncio.events.AbstractEventLoop.create_task": "loop.create_task", "asyncio.base_events.BaseEventLoop.run_in_executor": "run_in_executor", "asyncio.events.AbstractEventLoop.run_in_executor": "run_in_executor"}


def tasks1(ctx: Ctx, chk) -> None:
    rule = "TASKS-1"
    chk.rule(rule, "every construct that starts an independent task (create_task, ensure_future, shield, loop.create_task) in the gateway / persistence code is a registered background task with a cancel site awaited on context exit; asyncio.shield is refuted: the shielded inner task survives the cancellation of the saver and keeps running (and writing) after the context was left")
    mods = ("aiomysensors.persistence", "aiomysensors.gateway")
    n = 0
    for f in ctx.prog.all_functions():
        if f.module.name not in mods:
            continue
        for node in ctx.own_nodes(f):
            if not isinstance(node, ast.Call):
                continue
            names = callee_names(ctx, f, node)
            kind = next((TASK_MAKERS[x] for x in names if x in TASK_MAKERS), None)
            if kind is None:
                continue
            n += 1
            chk.instance(rule)
            key = fkey(f, node) + "::task"
            if kind == "shield":
                chk.refute(rule, key, f"`{norm(node)[:70]}` runs its argument as an independent task that cancellation of {f.qualname} does not stop: when the context is left during that operation, stop() returns while the shielded operation is still running in the background and can overwrite the final save", ctx.loc(f, node))
                continue
            par = ctx.prog.parents.get(node)
            if isinstance(par, ast.Await):
                # awaited where it is started: the awaiting coroutine does not go on before it finished, and a
                # cancellation of the awaiter cancels it too (a thread job that is already running is the subject
                # of ORDERED-IO)
                chk.ok(rule, key, f"{kind}: awaited in place - not an independent task", ctx.loc(f, node), sample=False)
                continue
            tname = norm(par.targets[0]) if isinstance(par, ast.Assign) else None
            scope = f
            cancels = False
            if tname:
                for h in [scope] + list(scope.nested.values()) + ([scope.parent] if scope.parent else []):
                    for x in ctx.own_nodes(h):
                        if isinstance(x, ast.Call) and norm(x.func) == f"{tname}.cancel":
                            cancels = True
            if not cancels and tname and _class_canceller(ctx, f, tname):
                cancels = True
            if cancels:
                chk.ok(rule, key, f"{kind}: task bound to {tname}, cancelled by the registered cancel callback", ctx.loc(f, node))
            else:
                chk.refute(rule, key, f"`{norm(node)[:70]}` starts a task that nothing cancels: it is left running when the context exits", ctx.loc(f, node))
    chk.floor(rule, "task-starting sites in gateway/persistence", n, 1)
