"""Checker self-test: canaries (quick) and the mutation matrix (thorough).

Variants are scratch copies of /repo/src with AST-verified text edits applied;
they live under a temporary directory outside /repo and /verif and are removed
as soon as the checks have run on them.  Nothing of a variant is executed: the
checks analyse it exactly as they analyse /repo.
"""

from __future__ import annotations

import ast
from concurrent.futures import ThreadPoolExecutor
import os
from pathlib import Path
import shutil
import subprocess
import sys
import tempfile

from .model import AnalysisError

VERIF = Path(__file__).resolve().parent.parent
REPO = Path("/repo")
PKG_REL = Path("src") / "aiomysensors"


def load_catalogue():
    """The hand-written catalogue plus the independently seeded patches under /verif/seeded."""
    import json

    from . import mutants

    cat = list(mutants.MUTANTS)
    sd = VERIF / "seeded"
    if sd.is_dir():
        for d in sorted(sd.iterdir()):
            mf = d / "meta.json"
            pf = d / "patch.diff"
            if mf.exists() and pf.exists():
                m = json.loads(mf.read_text())
                pid = m["breaks_property"]
                # a seeded defect the target property's check does not decide (its restructuring is outside what the rules
                # model): recorded as `undecided` - the check must end as an analysis error there, never as a pass
                kind = "undecided" if m.get("target_verdict") == "analysis-error" else "break"
                cat.append({"id": m["id"], "kind": kind, "props": [pid], "edits": [], "patch": str(pf), "rules": {pid: m.get("caught_by_rules_of_target_property", [])}, "canary": False, "note": m.get("change", "")})
    vd = VERIF / "variants"
    if vd.is_dir():
        for d in sorted(vd.iterdir()):
            mf = d / "meta.json"
            pf = d / "patch.diff"
            if mf.exists() and pf.exists():
                m = json.loads(mf.read_text())
                cat.append({"id": f"variant-{m['id']}", "kind": "break", "props": list(m["breaks"]), "edits": [], "patch": str(pf), "rules": m.get("rules", {}), "canary": False, "note": m.get("change", "")})
    rd = VERIF / "refactors"
    if rd.is_dir():
        for d in sorted(rd.iterdir()):
            pf = d / "patch.diff"
            if pf.exists():
                cat.append({"id": f"refactor-{d.name}", "kind": "preserve", "props": [], "edits": [], "patch": str(pf), "rules": {}, "canary": False, "note": "behaviour-preserving refactoring written by an independent sub-agent"})
    pd = VERIF / "refactors_pending"
    if pd.is_dir():
        for d in sorted(pd.iterdir()):
            pf = d / "patch.diff"
            if pf.exists():
                # behaviour-preserving, but outside what the rules model: analysis errors are expected, a refutation never
                cat.append({"id": f"unseen-{d.name}", "kind": "unseen", "props": [], "edits": [], "patch": str(pf), "rules": {}, "canary": False, "note": "behaviour-preserving refactoring the analysis does not see through (analysis errors only)"})
    return cat


def make_variant(mut: dict, dest: Path, repo: Path = REPO) -> tuple[bool, str]:
    """Copy repo/src to dest/src and apply the mutant's edits. False if an anchor is missing."""
    src = repo / "src"
    shutil.copytree(src, dest / "src", ignore=shutil.ignore_patterns("__pycache__", "*.pyc"))
    if mut.get("patch"):
        r = subprocess.run(["patch", "-p1", "-s", "-d", str(dest), "-i", mut["patch"]], capture_output=True, text=True, check=False)
        if r.returncode != 0:
            return False, f"patch does not apply: {(r.stdout + r.stderr)[:120]}"
        return True, ""
    for rel, find, repl in mut["edits"]:
        p = dest / PKG_REL / rel
        if not p.exists():
            return False, f"file {rel} missing"
        s = p.read_text()
        if s.count(find) != 1:
            return False, f"anchor occurs {s.count(find)} times in {rel}: {find[:50]!r}"
        s = s.replace(find, repl)
        try:
            ast.parse(s)
        except SyntaxError as err:
            return False, f"edit does not parse: {err}"
        p.write_text(s)
    return True, ""


def run_check(prop: str, root: Path, tier: str = "quick") -> tuple[int, str]:
    env = dict(os.environ)
    env["VERIF_NO_EVIDENCE"] = "1"
    proc = subprocess.run(
        [sys.executable, str(VERIF / "vcheck.py"), prop, "--tier", tier, "--root", str(root), "--no-selftest"],
        capture_output=True,
        text=True,
        env=env,
        timeout=900,
        check=False,
    )
    return proc.returncode, proc.stdout + proc.stderr


def rules_reported(out: str) -> set[str]:
    rules = set()
    for ln in out.splitlines():
        ln = ln.strip()
        if ln.startswith("[") and "]" in ln:
            rules.add(ln[1 : ln.index("]")])
    return rules


def evaluate(mut: dict, prop: str, code: int, out: str) -> tuple[bool, str]:
    if mut["kind"] == "preserve":
        if code == 0:
            return True, "silent"
        return False, f"exit {code} on a behaviour-preserving variant: {sorted(rules_reported(out)) or out[-300:]}"
    if mut["kind"] == "unseen":
        return (code != 1), ("no refutation" if code != 1 else f"exit 1 on a behaviour-preserving variant: {sorted(rules_reported(out))}")
    if mut["kind"] == "undecided":
        return (code != 0 or prop not in mut["props"]), ("not passed" if code != 0 else "passed (exit 0) although the property is broken")
    if code == 1:
        want = mut.get("rules", {}).get(prop)
        got = rules_reported(out)
        if want and not (set(want) & got):
            return False, f"exit 1 but by rules {sorted(got)}, expected one of {want}"
        return True, f"caught by {sorted(got)}"
    if code == 2:
        return False, "exit 2 (analysis error) instead of a violation: " + "".join(x for x in out.splitlines() if "ANALYSIS-ERROR" in x)[:300]
    return False, "not detected (exit 0)"


def run_matrix(pairs: list[tuple[dict, str]], jobs: int = 16) -> list[dict]:
    """pairs: (mutant, property).  Returns result records."""
    tmp = Path(tempfile.mkdtemp(prefix="vsa-"))
    results: list[dict] = []
    try:
        variants: dict[str, Path | None] = {}
        notes: dict[str, str] = {}
        for mut, _p in pairs:
            if mut["id"] in variants:
                continue
            d = tmp / mut["id"]
            d.mkdir()
            ok, why = make_variant(mut, d)
            variants[mut["id"]] = d if ok else None
            notes[mut["id"]] = why
        # warm the facts cache once per variant (avoids 19 concurrent mypy runs of the same tree)
        def warm(mid: str):
            d = variants[mid]
            if d is None:
                return
            subprocess.run([sys.executable, "-c", "import sys; sys.path.insert(0, %r); from sa.model import Program; Program(%r).facts" % (str(VERIF), str(d))], capture_output=True, timeout=900, check=False)

        with ThreadPoolExecutor(max_workers=jobs) as ex:
            list(ex.map(warm, list(variants)))

        def one(pair):
            mut, prop = pair
            d = variants[mut["id"]]
            if d is None:
                return {"mutant": mut["id"], "property": prop, "status": "skipped", "detail": notes[mut["id"]]}
            code, out = run_check(prop, d)
            ok, detail = evaluate(mut, prop, code, out)
            return {"mutant": mut["id"], "property": prop, "status": "ok" if ok else "FAIL", "exit": code, "detail": detail}

        with ThreadPoolExecutor(max_workers=jobs) as ex:
            results = list(ex.map(one, pairs))
    finally:
        shutil.rmtree(tmp, ignore_errors=True)
    return results


def combined_canary(dest: Path, repo: Path = REPO) -> list[dict]:
    """One tree carrying every canary edit whose anchors exist (quick tier: one extra analysis for all properties)."""
    cat = [m for m in load_catalogue() if m.get("canary")]
    src = repo / "src"
    shutil.copytree(src, dest / "src", ignore=shutil.ignore_patterns("__pycache__", "*.pyc"))
    applied = []
    for mut in cat:
        texts = {}
        ok = True
        for rel, find, repl in mut["edits"]:
            p = dest / PKG_REL / rel
            s = texts.get(p, p.read_text() if p.exists() else "")
            if s.count(find) != 1:
                ok = False
                break
            s2 = s.replace(find, repl)
            try:
                ast.parse(s2)
            except SyntaxError:
                ok = False
                break
            texts[p] = s2
        if ok:
            for p, s in texts.items():
                p.write_text(s)
            applied.append(mut)
    return applied


def run_quick(prop: str, chk) -> None:
    tmp = Path(tempfile.mkdtemp(prefix="vsa-c-"))
    try:
        applied = combined_canary(tmp)
        mine = [m for m in applied if prop in m["rules"]]
        skipped = [m["id"] for m in load_catalogue() if m.get("canary") and prop in m["rules"] and m not in applied]
        if not mine:
            chk.notes["canary"] = {"variants": 0, "skipped_anchor_missing": skipped}
            return
        code, out = run_check(prop, tmp)
        got = rules_reported(out)
        res = []
        fails = []
        for m in mine:
            want = set(m["rules"][prop])
            hit = sorted(want & got)
            res.append({"canary": m["id"], "expected_rules": sorted(want), "fired": hit})
            if not hit:
                fails.append(f"{m['id']}: none of {sorted(want)} fired on the canary tree (exit {code}; fired: {sorted(got)})")
        chk.notes["canary"] = {"tree": "all canary edits applied to one scratch copy of /repo/src", "variants": len(mine), "results": res, "skipped_anchor_missing": skipped}
        if fails:
            raise AnalysisError("canary self-test failed (a rule that must fire stayed silent): " + "; ".join(fails))
    finally:
        shutil.rmtree(tmp, ignore_errors=True)


def run_for(prop: str, tier: str, chk, seed: int) -> None:
    cat = load_catalogue()
    if tier == "quick":
        run_quick(prop, chk)
        return
    else:
        mine = [m for m in cat if (m["kind"] == "break" and prop in m["props"]) or m["kind"] == "preserve"]
    if not mine:
        chk.notes["selftest"] = {"tier": tier, "variants": 0}
        return
    if seed:
        import random

        random.Random(seed).shuffle(mine)
    res = run_matrix([(m, prop) for m in mine])
    fails = [r for r in res if r["status"] == "FAIL"]
    chk.notes["selftest"] = {
        "tier": tier,
        "variants": len(res),
        "caught_or_silent_as_expected": sum(1 for r in res if r["status"] == "ok"),
        "skipped_anchor_missing": [r["mutant"] for r in res if r["status"] == "skipped"],
        "results": [{k: r[k] for k in ("mutant", "status", "detail")} for r in res],
    }
    if fails:
        raise AnalysisError("checker self-test failed: " + "; ".join(f"{r['mutant']}: {r['detail']}" for r in fails[:5]))
