"""Canaries and mutation self-test (filled in later)."""


def run_for(prop, tier, chk, seed):
    return None
