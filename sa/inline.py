"""Helper inlining: analyse a function as if its statement-level calls of small same-module helpers were
written out in place ("extract method" / "move to a private module" must not change a verdict).  Helpers of
other modules are written out as well: their nodes keep resolving names, types and call facts in the module they
were written in (Program.origin).

`inline(ctx, f, want)` returns a synthetic FuncInfo with the same module / qualname whose body is f's body
with every statement of one of the forms

    [await] helper(args)            (expression statement)
    x = [await] helper(args)        (helper ends in `return <expr>`:  ...body...; x = <expr>)
    return [await] helper(args)     (the helper's body, returns kept)

replaced by `param = arg` assignments (for arguments that are not the identically named variable) followed by
the helper's own statement nodes.  The statement nodes of the helper are *shared* (not copied), so position-based
type facts, `Program.parents` and node identity keep working; only the containers on the path to a call site
are shallow-copied.  Inlining is refused (the call is left alone) when it could change meaning: a parameter name
that clashes with a different caller variable, a `return` in the middle of the helper for the first two forms,
*args/**kwargs, a helper from another module, recursion.
"""

from __future__ import annotations

import ast
import copy
from typing import Callable

from .model import FuncInfo

MAX_DEPTH = 3
# functions that rules refer to by name: never written out into their callers, wherever they are defined / re-exported
ANCHORS = {
    "aiomysensors.model.protocol.get_incoming_message_handler",
    "aiomysensors.model.protocol.get_outgoing_message_handler",
    "aiomysensors.model.protocol.get_protocol",
}


def _helper_of(ctx, f: FuncInfo, call: ast.Call) -> FuncInfo | None:
    fn = call.func
    h = None
    if isinstance(fn, ast.Attribute) and isinstance(fn.value, ast.Name) and fn.value.id in ("cls", "self") and f.cls is not None:
        h = f.cls.find_method(fn.attr)
    elif f.cls is not None and f.name == "__init__" and isinstance(fn, ast.Attribute) and fn.attr == "__init__":
        # the constructor chain: super().__init__(...) / Base.__init__(self, ...) of a repository base class
        if isinstance(fn.value, ast.Call) and isinstance(fn.value.func, ast.Name) and fn.value.func.id == "super" and not fn.value.args:
            h = f.cls.find_method("__init__", after=f.cls)
        elif isinstance(fn.value, ast.Name) and call.args and isinstance(call.args[0], ast.Name) and call.args[0].id == "self":
            d = ctx.prog.resolve_expr(f.module, fn.value)
            if d is not None and d.kind == "class" and d.obj in f.cls.repo_mro()[1:]:
                h = d.obj.find_method("__init__")
        if h is not None and not h.is_abstract() and h is not f and not (h.node.args.vararg or h.node.args.kwarg) and not h.node.decorator_list:
            return h  # a static call of one definition: overriding constructors in subclasses do not matter
        return None
    elif isinstance(fn, ast.Attribute) and isinstance(fn.value, ast.Name) and fn.value.id not in ("cls", "self") and _foreign_method(ctx, f, call) is not None:
        # a method of another repository object held in a plain local / parameter (`message_buffer.park(m)`): one fixed
        # body when mypy resolves the call to a single instance method that no subclass overrides
        h = _foreign_method(ctx, f, call)
    elif isinstance(fn, ast.Name) and fn.id in (getattr(f, "nested", None) or {}):
        # a nested helper function called by its enclosing function: a closure reads the enclosing locals as they are
        # at the time of the call, which is what its body written out at the call does
        h = f.nested[fn.id]
        if h.node.decorator_list or h.node.args.vararg or h.node.args.kwarg or any(isinstance(n, ast.Nonlocal) for n in ast.walk(h.node)):
            return None
        return h
    elif isinstance(fn, ast.Name):
        d = ctx.prog.resolve_expr(f.module, fn)
        if d is not None and d.kind == "func":
            h = d.obj
    if h is None or h is f or h.is_abstract():
        return None
    if h.module is not f.module and ctx.prog.aliases_of(h) & ANCHORS:
        return None  # a function the rules name themselves (handler lookup, protocol selection) stays a call
    if h.cls is not None and any(h.name in k.methods for k in ctx.prog.subclasses(h.cls)):
        return None  # overridden somewhere: the call is dynamic dispatch, not a fixed body
    if h.node.decorator_list and not all(ast.unparse(d) in ("classmethod", "staticmethod") for d in h.node.decorator_list):
        return None
    a = h.node.args
    if a.vararg or a.kwarg:
        return None
    return h


STABLE_ATTRS = ("set_messages", "internal_messages")  # never re-bound (sleepbuf BUFFER-ONCE / removal rules judge that)


def _foreign_method(ctx, f: FuncInfo, call: ast.Call) -> FuncInfo | None:
    try:
        fact = ctx.prog.call_fact(f.module, call)
    except Exception:  # noqa: BLE001
        return None
    if not fact or not fact[0] or "|" in fact[0] or not fact[0].startswith("aiomysensors."):
        return None
    try:
        h = ctx.func(fact[0])
    except Exception:  # noqa: BLE001
        return None
    if h is None or h.cls is None or h.node.decorator_list or h.name.startswith("__") or h.name != call.func.attr:
        return None
    pp = h.positional_params
    if not pp or pp[0] != "self":
        return None
    # only bookkeeping methods: a private method, or a method of the record that carries the sleep buffers
    if not ((h.name.startswith("_") and not h.name.startswith("__")) or _carries_buffers(h.cls)):
        return None
    if any(isinstance(n, ast.Await) for n in ast.walk(h.node)):
        return None
    return h


def _carries_buffers(cls) -> bool:
    return any(isinstance(st, ast.AnnAssign) and isinstance(st.target, ast.Name) and st.target.id in STABLE_ATTRS for st in cls.node.body)


def _fold_guard_returns(body: list, parents: dict) -> list:
    """[if c: return] + rest  ->  [if c: pass else: rest]   (only for a bare `return` as the whole guard body)."""
    for i, st in enumerate(body):
        if isinstance(st, ast.If) and not st.orelse and st.body and isinstance(st.body[-1], ast.Return) and st.body[-1].value is None and i + 1 < len(body) and not any(isinstance(n, ast.Return) for b in st.body[:-1] for n in ast.walk(b)):
            # `if c: <work>; return` + rest  ->  `if c: <work> / else: rest`
            rest = _fold_guard_returns(body[i + 1 :], parents)
            new_if = ast.copy_location(ast.If(test=st.test, body=list(st.body[:-1]) or [ast.copy_location(ast.Pass(), st.body[0])], orelse=rest), st)
            if st in parents:
                parents[new_if] = parents[st]
            return body[:i] + [new_if]
        if any(isinstance(n, ast.Return) for n in ast.walk(st)):
            return body
    return body


def _tail_returns_ok(body: list) -> bool:
    """Every `return` of the body is in tail position (nothing of the function can run after it except `finally`),
    so `return E` may be rewritten `target = E` with control falling off the end."""

    def ok(stmts: list, tail: bool) -> bool:
        for i, st in enumerate(stmts):
            last = tail and i == len(stmts) - 1
            if isinstance(st, ast.Return):
                if not last:
                    return False
            elif isinstance(st, ast.If):
                if not (ok(st.body, last) and ok(st.orelse, last)):
                    return False
            elif isinstance(st, (ast.With, ast.AsyncWith)):
                if not ok(st.body, last):
                    return False
            elif isinstance(st, ast.Try):
                has_ret_in_body = any(isinstance(n, ast.Return) for b in st.body for n in ast.walk(b))
                if has_ret_in_body and st.orelse:
                    return False
                if any(isinstance(n, ast.Return) for b in st.finalbody for n in ast.walk(b)):
                    return False
                if not (ok(st.body, last and not st.orelse) and ok(st.orelse, last) and all(ok(h.body, last) for h in st.handlers)):
                    return False
            elif isinstance(st, (ast.FunctionDef, ast.AsyncFunctionDef, ast.ClassDef)):
                continue
            elif any(isinstance(n, ast.Return) for n in ast.walk(st)):
                return False  # inside a loop / match: not handled
        return True

    return ok(body, True)


def _replace_returns(stmts: list, tgt, parents: dict, like: ast.stmt) -> list:
    """Copy of the statement list with every `return E` replaced by `tgt = E` (containers on the way shallow-copied)."""
    out = []
    for st in stmts:
        if isinstance(st, ast.Return):
            if st.value is None:
                out.append(ast.copy_location(ast.Pass(), st))
                continue
            t2 = copy.copy(tgt)
            a = ast.copy_location(ast.Assign(targets=[t2], value=st.value), st)
            parents[t2] = a
            if st in parents:
                parents[a] = parents[st]
            out.append(a)
            continue
        if isinstance(st, (ast.FunctionDef, ast.AsyncFunctionDef, ast.ClassDef)) or not any(isinstance(n, ast.Return) for n in ast.walk(st)):
            out.append(st)
            continue
        st2 = copy.copy(st)
        for name in ("body", "orelse", "finalbody"):
            lst = getattr(st, name, None)
            if isinstance(lst, list) and lst and all(isinstance(x, ast.stmt) for x in lst):
                setattr(st2, name, _replace_returns(lst, tgt, parents, like))
        if getattr(st, "handlers", None):
            nh = []
            for hd in st.handlers:
                h2 = copy.copy(hd)
                h2.body = _replace_returns(hd.body, tgt, parents, like)
                nh.append(h2)
            st2.handlers = nh
        if st in parents:
            parents[st2] = parents[st]
        out.append(st2)
    return out


def _call_in(st: ast.stmt):
    """(form, call, target) for the three recognised statement forms."""
    v = None
    form = None
    tgt = None
    if isinstance(st, ast.Expr):
        v, form = st.value, "expr"
    elif isinstance(st, ast.Assign) and len(st.targets) == 1 and (isinstance(st.targets[0], ast.Name) or (isinstance(st.targets[0], ast.Tuple) and all(isinstance(x, ast.Name) for x in st.targets[0].elts))):
        v, form, tgt = st.value, "assign", st.targets[0]
    elif isinstance(st, ast.AnnAssign) and st.value is not None and isinstance(st.target, ast.Name):
        v, form, tgt = st.value, "assign", st.target  # `x: T = helper(...)`: the annotation does nothing at run time
    elif isinstance(st, ast.Return) and st.value is not None:
        v, form = st.value, "return"
    if form == "expr" and isinstance(v, ast.Yield) and v.value is not None:
        inner = v.value.value if isinstance(v.value, ast.Await) else v.value
        if isinstance(inner, ast.Call):
            return "yield", inner, v
    if v is None:
        return None
    if isinstance(v, ast.Await):
        v = v.value
    if isinstance(v, ast.Call):
        return form, v, tgt
    return None


def _names_bound(node: ast.AST) -> set[str]:
    out = set()
    for n in ast.walk(node):
        if isinstance(n, ast.Name) and isinstance(n.ctx, (ast.Store, ast.Del)):
            out.add(n.id)
    # names bound by `except ... as err` live only inside their handler: they cannot capture anything
    return out


def _names_used(node: ast.AST) -> set[str]:
    return {n.id for n in ast.walk(node) if isinstance(n, ast.Name)}


def inline(ctx, f: FuncInfo, want: Callable[[FuncInfo], bool] | None = None) -> FuncInfo:
    """f with helper calls written out; f itself when nothing was inlined."""
    cache = ctx.__dict__.setdefault("_inline_cache", {})
    key = (f, want)
    if key in cache:
        return cache[key]
    # private helpers: a private name, or any function of a private module of the package (`_util.py`)
    want = want or (lambda h: (h.name.startswith("_") and not h.name.startswith("__")) or (h.cls is None and h.module.name.rsplit(".", 1)[-1].startswith("_") and not h.module.name.endswith("__init__") and not h.name.startswith("__")) or (h.cls is not None and not h.name.startswith("__") and _carries_buffers(h.cls)))
    parents = ctx.prog.parents
    changed = [False]
    inlined: list[str] = []
    inlined_funcs: list[FuncInfo] = []
    caller_names = set(f.params) | _names_bound(f.node)

    def expand(st: ast.stmt, depth: int, active: tuple, allow_gen: bool = False) -> list[ast.stmt] | None:
        hit = _call_in(st)
        if hit is None or depth >= MAX_DEPTH:
            return None
        form, call, tgt = hit
        h = _helper_of(ctx, f, call)
        if h is not None and not allow_gen and not h.node.decorator_list and any(isinstance(n_, (ast.Yield, ast.YieldFrom)) for n_ in ast.walk(h.node)):
            return None  # calling a generator function runs nothing of its body (see for_generator_helper)
        ctor_chain = h is not None and h.name == "__init__" and f.name == "__init__" and isinstance(call.func, ast.Attribute) and call.func.attr == "__init__"
        is_nested = h is not None and h.parent is not None and getattr(h.parent, "node", None) is getattr(f, "node", None) or (h is not None and h.name in (getattr(f, "nested", None) or {}) and f.nested[h.name] is h)
        if h is None or not (want(h) or ctor_chain or is_nested) or h in active:
            return None
        if h.is_async != isinstance(parents.get(call), ast.Await):
            return None
        params = [p for p in h.positional_params if not (p in ("self", "cls") and h.cls is not None and not h.is_staticmethod())]
        call_args = list(call.args)
        if ctor_chain and isinstance(call.func.value, ast.Name) and call_args:
            call_args = call_args[1:]  # Base.__init__(self, ...): the explicit receiver
        if any(isinstance(a, ast.Starred) for a in call_args) or len(call_args) > len(params):
            return None
        amap: dict[str, ast.expr] = dict(zip(params, call_args))
        for kw in call.keywords:
            if kw.arg is None or kw.arg not in h.params:
                return None
            amap[kw.arg] = kw.value
        for p in h.params:
            if p in ("self", "cls") and h.cls is not None:
                continue
            if p not in amap:
                d = h.param_default(p)
                if d is None:
                    return None
                amap[p] = d
        foreign = isinstance(call.func, ast.Attribute) and isinstance(call.func.value, ast.Name) and call.func.value.id not in ("self", "cls") and h.cls is not None and not ctor_chain and not is_nested and h.positional_params[:1] == ["self"]
        if foreign:
            amap["self"] = call.func.value  # the receiver: renamed in the body below (or no inlining)
        body = list(h.node.body)
        if body and isinstance(body[0], ast.Expr) and isinstance(body[0].value, ast.Constant):
            body = body[1:]
        # leading early-return guards `if c: return` become `if c: pass / else: <rest>` (same test node, same order)
        if form == "expr":
            body = _fold_guard_returns(body, parents)
        # returns: only a final one for expr/assign forms - or, for a value, every return in tail position
        yield_node = None
        if form == "yield":
            yield_node = tgt
            tgt = ast.copy_location(ast.Name(id="__inl_value", ctx=ast.Store()), st)
            form = "assign"
        rets = [n for s_ in body for n in ast.walk(s_) if isinstance(n, ast.Return)]
        final_ret = body[-1] if body and isinstance(body[-1], ast.Return) else None
        tail_mode = False
        if form in ("expr", "assign"):
            if any(r is not final_ret for r in rets):
                if form == "assign" and isinstance(tgt, ast.Name) and all(r.value is not None for r in rets) and _tail_returns_ok(body):
                    tail_mode = True
                else:
                    return None
            if form == "assign" and not tail_mode and (final_ret is None or final_ret.value is None):
                return None
        # name hygiene: helper locals / parameters must not capture different caller variables.  On a clash the
        # helper's body is copied with the clashing names renamed (positions are kept, so typed facts still apply;
        # the copies get their own parent links)
        h_locals = _names_bound(h.node) - set(h.params)
        # a parameter that is handed a plain name of the caller (and never re-bound by the helper) *is* that name: the
        # helper's body is copied with the parameter renamed instead of `param = name` in front of it
        h_stores = _names_bound(h.node)
        direct_ren = {}
        for p_, a_ in list(amap.items()):
            if isinstance(a_, ast.Name) and a_.id != p_ and p_ not in h_stores and a_.id not in h_locals and a_.id not in h.params and not any(isinstance(n_, ast.Name) and n_.id == a_.id for n_ in ast.walk(h.node)) and not any(isinstance(x_, (ast.FunctionDef, ast.AsyncFunctionDef, ast.Lambda)) for x_ in ast.walk(h.node) if x_ is not h.node):
                direct_ren[p_] = a_.id
        # a parameter that is handed `<name>.<buffer attribute>` (an attribute that is never re-bound) is that expression
        direct_attr = {}
        for p_, a_ in list(amap.items()):
            if isinstance(a_, ast.Attribute) and a_.attr in STABLE_ATTRS and isinstance(a_.value, ast.Name) and p_ not in h_stores and not any(isinstance(x_, (ast.FunctionDef, ast.AsyncFunctionDef, ast.Lambda)) for x_ in ast.walk(h.node) if x_ is not h.node):
                if a_.value.id in h_locals or a_.value.id in h.params:
                    continue  # the helper has a name of its own spelled like the receiver
                direct_attr[p_] = a_
        if foreign and "self" not in direct_ren:
            return None
        if len(set(direct_ren.values())) != len(direct_ren):
            if foreign:
                return None
            direct_attr = {}
        if (direct_ren or direct_attr) and len(set(direct_ren.values())) == len(direct_ren):
            class _DR(ast.NodeTransformer):
                def visit_Name(self, n):
                    if n.id in direct_attr and isinstance(n.ctx, ast.Load):
                        a0 = direct_attr[n.id]
                        new_ = ast.copy_location(ast.Attribute(value=ast.copy_location(ast.Name(id=a0.value.id, ctx=ast.Load()), n), attr=a0.attr, ctx=ast.Load()), n)
                        new_._mod = getattr(a0, "_mod", None) or h.module  # type: ignore[attr-defined]
                        new_.value._mod = new_._mod  # type: ignore[attr-defined]
                        return new_
                    if n.id in direct_ren:
                        n.id = direct_ren[n.id]
                    return n

            body = [_DR().visit(copy.deepcopy(b)) for b in body]
            for b in body:
                for par in ast.walk(b):
                    if not hasattr(par, "_mod"):
                        par._mod = h.module  # type: ignore[attr-defined]
                    for ch in ast.iter_child_nodes(par):
                        parents[ch] = par
            amap = {direct_ren.get(p_, p_): (ast.copy_location(ast.Name(id=direct_ren[p_], ctx=ast.Load()), a_) if p_ in direct_ren else a_) for p_, a_ in amap.items() if p_ not in direct_attr}
            rets = [n for s_ in body for n in ast.walk(s_) if isinstance(n, ast.Return)]
            final_ret = body[-1] if body and isinstance(body[-1], ast.Return) else None
        tgt_names0 = set() if tgt is None or not isinstance(tgt, (ast.Name, ast.Tuple)) else {tgt.id} if isinstance(tgt, ast.Name) else {x.id for x in tgt.elts if isinstance(x, ast.Name)}
        clash = {p for p, a in amap.items() if not (isinstance(a, ast.Name) and a.id == p) and p in caller_names} | (h_locals & (caller_names - tgt_names0))
        if clash:
            ren = {n: f"__{h.name.strip('_')}_{n}" for n in clash}
            if any(v in caller_names for v in ren.values()):
                return None

            class _Ren(ast.NodeTransformer):
                def visit_Name(self, n):
                    if n.id in ren:
                        n.id = ren[n.id]
                    return n

                def visit_ExceptHandler(self, n):
                    self.generic_visit(n)
                    if n.name in ren:
                        n.name = ren[n.name]
                    return n

                def visit_FunctionDef(self, n):
                    return n

                visit_AsyncFunctionDef = visit_FunctionDef
                visit_Lambda = visit_FunctionDef

            body = [_Ren().visit(copy.deepcopy(b)) for b in body]
            for b in body:
                for par in ast.walk(b):
                    ctx.prog.node_module[par] = h.module  # copies resolve names / types where the helper was written
                    for ch in ast.iter_child_nodes(par):
                        parents[ch] = par
            amap = {ren.get(p, p): a for p, a in amap.items()}
            rets = [n for s_ in body for n in ast.walk(s_) if isinstance(n, ast.Return)]
            final_ret = body[-1] if body and isinstance(body[-1], ast.Return) else None
            h_locals = {ren.get(n, n) for n in h_locals}
        # `setattr(obj, name, v)` / `getattr(obj, name)` with `name` a parameter bound to a string literal at this call:
        # the attribute access written out (a copy of the helper's statements; positions are kept)
        const_names = {p: a.value for p, a in amap.items() if isinstance(a, ast.Constant) and isinstance(a.value, str) and a.value.isidentifier()}
        # `if flag:` with `flag` a parameter bound to True / False / None at this call: only the branch that runs
        rebound0 = {n.id for b in body for n in ast.walk(b) if isinstance(n, ast.Name) and isinstance(n.ctx, ast.Store)}
        const_flags = {p: bool(a.value) for p, a in amap.items() if isinstance(a, ast.Constant) and (isinstance(a.value, bool) or a.value is None) and p not in rebound0}

        def _flag_of(t):
            if isinstance(t, ast.Name) and t.id in const_flags:
                return const_flags[t.id]
            if isinstance(t, ast.UnaryOp) and isinstance(t.op, ast.Not) and isinstance(t.operand, ast.Name) and t.operand.id in const_flags:
                return not const_flags[t.operand.id]
            return None

        if const_flags and any(isinstance(n, ast.If) and _flag_of(n.test) is not None for b in body for n in ast.walk(b)):

            class _Flag(ast.NodeTransformer):
                def visit_If(self, n):
                    self.generic_visit(n)
                    v = _flag_of(n.test)
                    if v is None:
                        return n
                    taken = n.body if v else n.orelse
                    return taken or ast.copy_location(ast.Pass(), n)

                def visit_FunctionDef(self, n):
                    return n

                visit_AsyncFunctionDef = visit_FunctionDef
                visit_Lambda = visit_FunctionDef

            body2_ = []
            for b in body:
                r_ = _Flag().visit(copy.deepcopy(b))
                body2_ += r_ if isinstance(r_, list) else [r_]
            body = body2_
            for b in body:
                ast.fix_missing_locations(b)
                for par in ast.walk(b):
                    if not hasattr(par, "_mod"):
                        par._mod = h.module  # type: ignore[attr-defined]
                    for ch in ast.iter_child_nodes(par):
                        parents[ch] = par
            rets = [n for s_ in body for n in ast.walk(s_) if isinstance(n, ast.Return)]
            final_ret = body[-1] if body and isinstance(body[-1], ast.Return) else None
        if const_names and any(isinstance(n, ast.Call) and isinstance(n.func, ast.Name) and n.func.id in ("setattr", "getattr") and len(n.args) >= 2 and isinstance(n.args[1], ast.Name) and n.args[1].id in const_names for b in body for n in ast.walk(b)):
            rebound = {n.id for b in body for n in ast.walk(b) if isinstance(n, ast.Name) and isinstance(n.ctx, ast.Store)}

            class _Attr(ast.NodeTransformer):
                def visit_Expr(self, n):
                    self.generic_visit(n)
                    c = n.value
                    if isinstance(c, ast.Call) and isinstance(c.func, ast.Name) and c.func.id == "setattr" and len(c.args) == 3 and not c.keywords and isinstance(c.args[1], ast.Name) and c.args[1].id in const_names and c.args[1].id not in rebound:
                        tgt_ = ast.copy_location(ast.Attribute(value=c.args[0], attr=const_names[c.args[1].id], ctx=ast.Store()), c)
                        return ast.copy_location(ast.Assign(targets=[tgt_], value=c.args[2]), n)
                    return n

                def visit_Call(self, n):
                    self.generic_visit(n)
                    if isinstance(n.func, ast.Name) and n.func.id == "getattr" and len(n.args) == 2 and not n.keywords and isinstance(n.args[1], ast.Name) and n.args[1].id in const_names and n.args[1].id not in rebound:
                        return ast.copy_location(ast.Attribute(value=n.args[0], attr=const_names[n.args[1].id], ctx=ast.Load()), n)
                    return n

                def visit_FunctionDef(self, n):
                    return n

                visit_AsyncFunctionDef = visit_FunctionDef
                visit_Lambda = visit_FunctionDef

            body = [_Attr().visit(copy.deepcopy(b)) for b in body]
            for b in body:
                ast.fix_missing_locations(b)
                for par in ast.walk(b):
                    if not hasattr(par, "_mod"):
                        par._mod = h.module  # type: ignore[attr-defined]
                    for ch in ast.iter_child_nodes(par):
                        parents[ch] = par
            rets = [n for s_ in body for n in ast.walk(s_) if isinstance(n, ast.Return)]
            final_ret = body[-1] if body and isinstance(body[-1], ast.Return) else None
        pre: list[ast.stmt] = []
        for p, a in amap.items():
            if isinstance(a, ast.Name) and a.id == p:
                continue
            if p in caller_names:
                return None
            asg = ast.Assign(targets=[ast.Name(id=p, ctx=ast.Store())], value=a, lineno=call.lineno, col_offset=call.col_offset, end_lineno=call.lineno, end_col_offset=call.col_offset)
            ast.fix_missing_locations(asg)
            parents[asg.targets[0]] = asg
            pre.append(asg)
        tgt_names = set() if tgt is None else {tgt.id} if isinstance(tgt, ast.Name) else {x.id for x in tgt.elts}
        if h_locals & (caller_names - tgt_names):
            return None
        out = rebuild(pre, depth + 1, active + (h,))  # a helper call in argument position: `outer(await inner(x))`
        if tail_mode:
            out += rebuild(_replace_returns(body, tgt, parents, st), depth + 1, active + (h,))
        else:
            core = body[:-1] if (final_ret is not None and form in ("expr", "assign")) else body
            out += rebuild(core, depth + 1, active + (h,))
        if form == "assign" and not tail_mode:
            rv = final_ret.value
            if isinstance(tgt, ast.Tuple) and isinstance(rv, ast.Tuple) and len(rv.elts) == len(tgt.elts) and not any(isinstance(x, ast.Starred) for x in rv.elts):
                # `a, b = (a, e)`: element-wise, identity elements dropped - unless an element reads a name another one rebinds
                pairs = [(t, v) for t, v in zip(tgt.elts, rv.elts) if not (isinstance(v, ast.Name) and v.id == t.id)]
                bound = {t.id for t, _ in pairs}
                if len(pairs) > 1 and any(bound & _names_used(v) for _, v in pairs):
                    out.append(ast.copy_location(ast.Assign(targets=[tgt], value=rv), st))
                else:
                    for t, v in pairs:
                        t2 = copy.copy(t)
                        a1 = ast.copy_location(ast.Assign(targets=[t2], value=v), st)
                        parents[t2] = a1
                        out.append(a1)
            elif not (isinstance(rv, ast.Name) and isinstance(tgt, ast.Name) and rv.id == tgt.id):
                asg = ast.copy_location(ast.Assign(targets=[tgt], value=rv), st)
                out.append(asg)
        elif form == "expr" and final_ret is not None and final_ret.value is not None:
            out.append(ast.copy_location(ast.Expr(value=final_ret.value), final_ret))
        if yield_node is not None:
            y2 = copy.copy(yield_node)
            y2.value = ast.copy_location(ast.Name(id="__inl_value", ctx=ast.Load()), st)
            e2 = ast.copy_location(ast.Expr(value=y2), st)
            parents[y2] = e2
            parents[y2.value] = y2
            if st in parents:
                parents[e2] = parents[st]
            out.append(e2)
        inlined.append(h.qualname)
        inlined_funcs.append(h)
        return out

    def hoist_arg_helper(st):
        """`[await] outer(<names>, helper(<names>))` with helper a nested function of f: `__a_helper = helper(..)` in front
        of the statement (the callee expression and the other arguments are plain names / attribute chains / constants,
        so nothing that is evaluated before the helper call can observe the move)."""
        v = st.value if isinstance(st, (ast.Expr, ast.Assign, ast.Return)) else None
        if isinstance(v, ast.Await):
            v = v.value
        if not isinstance(v, ast.Call) or v.keywords:
            return None

        def pure(e):
            while isinstance(e, ast.Attribute):
                e = e.value
            return isinstance(e, (ast.Name, ast.Constant))

        if not pure(v.func):
            return None
        nested = getattr(f, "nested", None) or {}
        hits = [a for a in v.args if isinstance(a, ast.Call) and isinstance(a.func, ast.Name) and a.func.id in nested and not a.keywords and all(pure(x) for x in a.args)]
        if len(hits) != 1 or not all(pure(a) or a is hits[0] for a in v.args):
            return None
        c = hits[0]
        if nested[c.func.id].is_async:
            return None
        lname = f"__a_{c.func.id.strip('_')}"
        if lname in caller_names:
            return None
        caller_names.add(lname)
        asg = ast.copy_location(ast.Assign(targets=[ast.copy_location(ast.Name(id=lname, ctx=ast.Store()), c)], value=c), st)
        st2 = copy.copy(st)
        st2.value = _swap(st.value, c, ast.copy_location(ast.Name(id=lname, ctx=ast.Load()), c))
        for root_ in (asg, st2):
            for par_ in ast.walk(root_):
                for ch_ in ast.iter_child_nodes(par_):
                    parents[ch_] = par_
        if st in parents:
            parents[st2] = parents[st]
            parents[asg] = parents[st]
        changed[0] = True
        return asg, st2

    def rebuild(stmts: list, depth: int, active: tuple) -> list:
        new = []
        stmts = list(stmts)
        i_ = 0
        while i_ < len(stmts):
            st0 = stmts[i_]
            if depth < MAX_DEPTH and getattr(f, "nested", None):
                pair_ = hoist_arg_helper(st0)
                if pair_ is not None:
                    stmts[i_ : i_ + 1] = list(pair_)
                    continue
            i_ += 1
        for st in stmts:
            ex = expand(st, depth, active)
            if ex is not None:
                changed[0] = True
                new.extend(ex)
                continue
            if isinstance(st, ast.If) and depth < MAX_DEPTH:
                bt = bool_test_helper(st)
                if bt is not None:
                    new.extend(rebuild(bt, depth + 1, active))
                    continue
            if isinstance(st, (ast.With, ast.AsyncWith)) and depth < MAX_DEPTH:
                w2 = with_item_helper(st)
                if w2 is not None:
                    st = w2
            if isinstance(st, ast.For) and depth < MAX_DEPTH:
                fg = for_generator_helper(st, depth, active)
                if fg is not None:
                    new.extend(rebuild(fg, depth + 1, active))
                    continue
            if isinstance(st, (ast.For, ast.AsyncFor)) and depth < MAX_DEPTH:
                pair = iter_expr_helper(st)
                if pair is not None:
                    new.append(pair[0])
                    st = pair[1]
            new.append(rebuild_node(st, depth, active))
        return new

    def for_generator_helper(st, depth, active):
        """`for x in gen(args): BODY` with gen a generator helper that has one `yield <v>` statement, outside any try /
        with, and no return: the helper's body written out with `x = <v>; BODY` in place of the yield.  BODY must not
        leave the loop with break / continue (a return or an exception leaves both the loop and the abandoned generator,
        which has no cleanup to run)."""
        c = st.iter
        if not isinstance(c, ast.Call) or st.orelse:
            return None
        h = _helper_of(ctx, f, c)
        if h is None or h.is_async or h is f or h in active or h.node.decorator_list or not want(h):
            return None
        ys = [n for n in ast.walk(h.node) if isinstance(n, (ast.Yield, ast.YieldFrom))]
        if len(ys) != 1 or not isinstance(ys[0], ast.Yield) or ys[0].value is None:
            return None
        if any(isinstance(n, (ast.Return, ast.Try, ast.With, ast.AsyncWith, ast.FunctionDef, ast.AsyncFunctionDef, ast.Lambda)) for b in h.node.body for n in ast.walk(b)):
            return None

        def leaves(stmts, in_loop=False):
            for x in stmts:
                if isinstance(x, (ast.Break, ast.Continue)) and not in_loop:
                    return True
                if isinstance(x, (ast.FunctionDef, ast.AsyncFunctionDef)):
                    continue
                inner = in_loop or isinstance(x, (ast.For, ast.AsyncFor, ast.While))
                for fld in ("body", "orelse", "finalbody"):
                    sub_ = getattr(x, fld, None)
                    if isinstance(sub_, list) and sub_ and isinstance(sub_[0], ast.stmt) and leaves(sub_, inner if fld == "body" else in_loop):
                        return True
                for hd in getattr(x, "handlers", []) or []:
                    if leaves(hd.body, in_loop):
                        return True
            return False

        if leaves(st.body):
            return None
        synth = ast.copy_location(ast.Expr(value=c), st)
        old_par = parents.get(c)
        parents[c] = synth
        try:
            out = expand(synth, depth, active, allow_gen=True)
        finally:
            if old_par is not None:
                parents[c] = old_par
        if out is None:
            return None
        hits = [0]

        def put(stmts):
            res = []
            for x in stmts:
                if isinstance(x, ast.Expr) and isinstance(x.value, ast.Yield):
                    hits[0] += 1
                    asg = ast.copy_location(ast.Assign(targets=[st.target], value=x.value.value), x)
                    parents[asg] = parents.get(x)
                    res.append(asg)
                    res.extend(st.body)
                    continue
                x2 = x
                for fld in ("body", "orelse"):
                    sub_ = getattr(x, fld, None)
                    if isinstance(sub_, list) and sub_ and isinstance(sub_[0], ast.stmt):
                        new_sub = put(sub_)
                        if new_sub != sub_:
                            if x2 is x:
                                x2 = copy.copy(x)
                                if x in parents:
                                    parents[x2] = parents[x]
                            setattr(x2, fld, new_sub)
                            for ch_ in new_sub:
                                parents[ch_] = x2
                res.append(x2)
            return res

        out2 = put(out)
        if hits[0] != 1 or any(isinstance(n, (ast.Yield, ast.YieldFrom)) for b in out2 for n in ast.walk(b) if n is not None and any(n is y_ for y_ in ys)):
            return None
        changed[0] = True
        return out2

    def iter_expr_helper(st):
        """`for x in helper(a).items():` with helper a one-expression function (`return <expr>`): the expression in
        place of the call (parameters replaced by plain-name arguments)."""
        for c in [x for x in ast.walk(st.iter) if isinstance(x, ast.Call)]:
            h = _helper_of(ctx, f, c)
            if h is None or h.is_async or h in (f,):
                continue
            nested_ = h.name in (getattr(f, "nested", None) or {}) and f.nested[h.name] is h
            if not (want(h) or nested_):
                continue
            hb = list(h.node.body)
            if hb and isinstance(hb[0], ast.Expr) and isinstance(hb[0].value, ast.Constant):
                hb = hb[1:]
            if len(hb) != 1 or not isinstance(hb[0], ast.Return) or hb[0].value is None or c.keywords:
                continue
            params = [p for p in h.positional_params if not (p in ("self", "cls") and h.cls is not None and not h.is_staticmethod())]
            if len(c.args) != len(params) or not all(isinstance(a, ast.Name) for a in c.args):
                continue
            ren = {p: a.id for p, a in zip(params, c.args) if p != a.id}
            bound_in = {n.id for n in ast.walk(hb[0].value) if isinstance(n, ast.Name) and isinstance(n.ctx, ast.Store)}
            if bound_in & (caller_names | set(ren.values())) - set():
                # comprehension variables of the helper expression that clash with caller names are its own scope: fine
                pass
            new_e = copy.deepcopy(hb[0].value)
            for n in ast.walk(new_e):
                if isinstance(n, ast.Name) and n.id in ren and isinstance(n.ctx, ast.Load):
                    n.id = ren[n.id]
                if not hasattr(n, "_mod"):
                    n._mod = h.module  # type: ignore[attr-defined]

            class _Sw(ast.NodeTransformer):
                def visit_Call(self, node):
                    if node is c:
                        return new_e
                    return self.generic_visit(node)

            # bound to a local first (`snap = <expr>` / `for x in snap.items():`): the shape a hand-written snapshot has
            lname = f"__it_{h.name.strip('_')}"
            if lname in caller_names:
                continue
            asg = ast.copy_location(ast.Assign(targets=[ast.copy_location(ast.Name(id=lname, ctx=ast.Store()), c)], value=new_e), st)
            st2 = copy.copy(st)
            st2.iter = _swap(st.iter, c, ast.copy_location(ast.Name(id=lname, ctx=ast.Load()), c))
            for root_ in (asg, st2.iter):
                for par_ in ast.walk(root_):
                    for ch_ in ast.iter_child_nodes(par_):
                        parents[ch_] = par_
            parents[st2.iter] = st2
            if st in parents:
                parents[st2] = parents[st]
                parents[asg] = parents[st]
            inlined.append(h.qualname)
            inlined_funcs.append(h)
            changed[0] = True
            return asg, st2
        return None

    def with_item_helper(st):
        """`with self._open(path, "save") as f:` with the helper a one-expression function: the expression in place
        (parameters replaced by the plain arguments), `**TABLE["key"]` of a constant table written out as keywords."""
        new_items = []
        hit = False
        for it in st.items:
            ce = it.context_expr
            c = ce.value if isinstance(ce, ast.Await) else ce
            h = _helper_of(ctx, f, c) if isinstance(c, ast.Call) else None
            ok = h is not None and h is not f and not h.is_async and want(h)
            if ok:
                hb = list(h.node.body)
                if hb and isinstance(hb[0], ast.Expr) and isinstance(hb[0].value, ast.Constant):
                    hb = hb[1:]
                params = [p for p in h.positional_params if not (p in ("self", "cls") and h.cls is not None and not h.is_staticmethod())]
                ok = len(hb) == 1 and isinstance(hb[0], ast.Return) and hb[0].value is not None and not c.keywords and len(c.args) == len(params) and all(isinstance(a, (ast.Name, ast.Constant)) or (isinstance(a, ast.Attribute) and isinstance(a.value, ast.Name)) for a in c.args)
            if not ok:
                new_items.append(it)
                continue
            amap_ = dict(zip(params, c.args))
            new_e = copy.deepcopy(hb[0].value)

            class _Sub(ast.NodeTransformer):
                def visit_Name(self, n):
                    if n.id in amap_ and isinstance(n.ctx, ast.Load):
                        return ast.copy_location(copy.deepcopy(amap_[n.id]), n)
                    return n

            new_e = _Sub().visit(new_e)
            # **TABLE[<constant>]  ->  explicit keywords
            for call_ in [x for x in ast.walk(new_e) if isinstance(x, ast.Call)]:
                kws = []
                for kw in call_.keywords:
                    v_ = kw.value
                    if kw.arg is None and isinstance(v_, ast.Subscript) and isinstance(v_.value, ast.Name) and isinstance(v_.slice, ast.Constant):
                        try:
                            tab = ctx.folder.fold(h.module, v_.value)
                        except Exception:  # noqa: BLE001
                            tab = None
                        if isinstance(tab, dict) and v_.slice.value in tab and isinstance(tab[v_.slice.value], dict) and all(isinstance(k_, str) for k_ in tab[v_.slice.value]):
                            try:
                                for k_, val_ in tab[v_.slice.value].items():
                                    pv = ctx.folder.plain(val_)
                                    if not (isinstance(pv, (str, int, bool, float)) or pv is None):
                                        raise ValueError
                                    kws.append(ast.copy_location(ast.keyword(arg=k_, value=ast.copy_location(ast.Constant(value=pv), v_)), kw))
                                continue
                            except ValueError:
                                pass
                    kws.append(kw)
                call_.keywords = kws
            for n in ast.walk(new_e):
                if not hasattr(n, "_mod"):
                    n._mod = h.module  # type: ignore[attr-defined]
            it2 = copy.copy(it)
            if isinstance(ce, ast.Await):
                aw = copy.copy(ce)
                aw.value = new_e
                it2.context_expr = aw
            else:
                it2.context_expr = new_e
            for par_ in ast.walk(it2.context_expr):
                for ch_ in ast.iter_child_nodes(par_):
                    parents[ch_] = par_
            new_items.append(it2)
            inlined.append(h.qualname)
            inlined_funcs.append(h)
            hit = True
        if not hit:
            return None
        st2 = copy.copy(st)
        st2.items = new_items
        for it in new_items:
            parents[it.context_expr] = st2
        if st in parents:
            parents[st2] = parents[st]
        changed[0] = True
        return st2

    def bool_test_helper(st):
        """`if [not] helper(): A else: B` with helper a parameterless test-and-act function whose every return is a
        bool constant in tail position: the helper's body with each `return K` replaced by the branch K selects
        (the branch is copied when several returns select it)."""
        t = st.test
        neg = False
        while isinstance(t, ast.UnaryOp) and isinstance(t.op, ast.Not):
            neg = not neg
            t = t.operand
        if not isinstance(t, ast.Call) or t.args or t.keywords:
            return None
        h = _helper_of(ctx, f, t)
        if h is None or h.is_async or h is f:
            return None
        nested_ = h.name in (getattr(f, "nested", None) or {}) and f.nested[h.name] is h
        if not (want(h) or nested_):
            return None
        hb = list(h.node.body)
        if hb and isinstance(hb[0], ast.Expr) and isinstance(hb[0].value, ast.Constant):
            hb = hb[1:]
        def fold_guards(stmts: list) -> list:
            """[if c: ...; return K] + rest  ->  [if c: ...; return K / else: rest]"""
            for i_, s_ in enumerate(stmts):
                if isinstance(s_, ast.If) and not s_.orelse and s_.body and isinstance(s_.body[-1], ast.Return) and i_ + 1 < len(stmts):
                    s2 = copy.copy(s_)
                    s2.orelse = fold_guards(stmts[i_ + 1 :])
                    if s_ in parents:
                        parents[s2] = parents[s_]
                    return stmts[:i_] + [s2]
            return stmts

        hb = fold_guards(hb)
        rets = [n for s_ in hb for n in ast.walk(s_) if isinstance(n, ast.Return)]
        if not rets or not all(isinstance(r.value, ast.Constant) and isinstance(r.value.value, bool) for r in rets) or not _tail_returns_ok(hb):
            return None
        if (_names_bound(h.node) - set(h.params)) & caller_names:
            return None
        if any(isinstance(n, (ast.Break, ast.Continue)) for s_ in hb for n in ast.walk(s_)):
            return None

        def branch(k: bool) -> list:
            chosen = st.body if (k != neg) else st.orelse
            out_ = [copy.deepcopy(b) for b in chosen] or [ast.copy_location(ast.Pass(), st)]
            for b in out_:
                for par_ in ast.walk(b):
                    for ch_ in ast.iter_child_nodes(par_):
                        parents[ch_] = par_
            return out_

        def repl(stmts: list) -> list:
            out_ = []
            for s_ in stmts:
                if isinstance(s_, ast.Return):
                    out_.extend(branch(bool(s_.value.value)))
                    continue
                if isinstance(s_, (ast.FunctionDef, ast.AsyncFunctionDef, ast.ClassDef)) or not any(isinstance(n, ast.Return) for n in ast.walk(s_)):
                    out_.append(s_)
                    continue
                s2 = copy.copy(s_)
                for name in ("body", "orelse", "finalbody"):
                    lst = getattr(s_, name, None)
                    if isinstance(lst, list) and lst and all(isinstance(x, ast.stmt) for x in lst):
                        setattr(s2, name, repl(lst))
                if getattr(s_, "handlers", None):
                    return None  # returns inside try/except: keep it simple
                if s_ in parents:
                    parents[s2] = parents[s_]
                out_.append(s2)
            return out_

        new_ = repl(hb)
        if new_ is None or any(x is None for x in new_):
            return None
        for s_ in new_:
            if st in parents:
                parents[s_] = parents[st]
        inlined.append(h.qualname)
        inlined_funcs.append(h)
        changed[0] = True
        return new_

    def _swap(root, old, new):
        if root is old:
            return new
        r2 = copy.copy(root)
        for fld, val in ast.iter_fields(root):
            if isinstance(val, ast.AST):
                setattr(r2, fld, _swap(val, old, new))
            elif isinstance(val, list):
                setattr(r2, fld, [_swap(v, old, new) if isinstance(v, ast.AST) else v for v in val])
        return r2

    def rebuild_node(st: ast.stmt, depth: int, active: tuple) -> ast.stmt:
        if isinstance(st, (ast.FunctionDef, ast.AsyncFunctionDef, ast.ClassDef)):
            return st

        fields = [(name, getattr(st, name)) for name in ("body", "orelse", "finalbody") if isinstance(getattr(st, name, None), list)]
        handlers = getattr(st, "handlers", None)
        cases = getattr(st, "cases", None)
        new_fields = {}
        for name, lst in fields:
            if lst and all(isinstance(x, ast.stmt) for x in lst):
                nl = rebuild(lst, depth, active)
                if len(nl) != len(lst) or any(a is not b for a, b in zip(nl, lst)):
                    new_fields[name] = nl
        if handlers:
            nh = []
            diff = False
            for hd in handlers:
                nb = rebuild(hd.body, depth, active)
                if len(nb) != len(hd.body) or any(a is not b for a, b in zip(nb, hd.body)):
                    h2 = copy.copy(hd)
                    h2.body = nb
                    nh.append(h2)
                    diff = True
                else:
                    nh.append(hd)
            if diff:
                new_fields["handlers"] = nh
        if cases:
            nc = []
            diff = False
            for c in cases:
                nb = rebuild(c.body, depth, active)
                if len(nb) != len(c.body) or any(a is not b for a, b in zip(nb, c.body)):
                    c2 = copy.copy(c)
                    c2.body = nb
                    nc.append(c2)
                    diff = True
                else:
                    nc.append(c)
            if diff:
                new_fields["cases"] = nc
        if not new_fields:
            return st
        st2 = copy.copy(st)
        for k, v in new_fields.items():
            setattr(st2, k, v)
        par = parents.get(st)
        if par is not None:
            parents[st2] = par
        return st2

    body2 = rebuild(list(f.node.body), 0, (f,))
    if not changed[0]:
        cache[key] = f
        return f
    node2 = copy.copy(f.node)
    node2.body = body2
    f2 = FuncInfo(f.module, f.name, f.qualname, node2, f.cls, f.parent, dict(f.nested))
    f2.inlined = sorted(set(inlined))  # type: ignore[attr-defined]
    f2.inlined_funcs = list(dict.fromkeys(inlined_funcs))  # type: ignore[attr-defined]
    f2.original = f  # type: ignore[attr-defined]
    cache[key] = f2
    return f2
