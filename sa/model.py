"""E1 source model + E3 constant folder + typed-fact lookup.

Pure `ast`; repository code is parsed, never imported or executed.
"""

from __future__ import annotations

import ast
from dataclasses import dataclass, field
from pathlib import Path
from typing import Any

from . import facts as facts_mod

PKG = "aiomysensors"


class AnalysisError(Exception):
    """The checker cannot analyse what it must (exit 2, never a pass)."""


# --------------------------------------------------------------------------
# entities


@dataclass(eq=False)
class FuncInfo:
    module: "Module"
    name: str
    qualname: str
    node: ast.FunctionDef | ast.AsyncFunctionDef
    cls: "ClassInfo | None" = None
    parent: "FuncInfo | None" = None
    nested: dict[str, "FuncInfo"] = field(default_factory=dict)

    @property
    def is_async(self) -> bool:
        return isinstance(self.node, ast.AsyncFunctionDef)

    @property
    def decorators(self) -> list[ast.expr]:
        return list(self.node.decorator_list)

    @property
    def decorator_names(self) -> list[str]:
        out = []
        for d in self.node.decorator_list:
            out.append(ast.unparse(d))
        return out

    @property
    def params(self) -> list[str]:
        a = self.node.args
        return [x.arg for x in a.posonlyargs + a.args] + [x.arg for x in a.kwonlyargs]

    @property
    def positional_params(self) -> list[str]:
        a = self.node.args
        return [x.arg for x in a.posonlyargs + a.args]

    @property
    def kwonly_params(self) -> list[str]:
        return [x.arg for x in self.node.args.kwonlyargs]

    def param_annotation(self, name: str) -> ast.expr | None:
        a = self.node.args
        for x in a.posonlyargs + a.args + a.kwonlyargs:
            if x.arg == name:
                return x.annotation
        return None

    def param_default(self, name: str) -> ast.expr | None:
        a = self.node.args
        pos = a.posonlyargs + a.args
        nd = len(a.defaults)
        for i, x in enumerate(pos):
            if x.arg == name:
                j = i - (len(pos) - nd)
                return a.defaults[j] if j >= 0 else None
        for x, d in zip(a.kwonlyargs, a.kw_defaults):
            if x.arg == name:
                return d
        return None

    @property
    def fq(self) -> str:
        return f"{self.module.name}.{self.qualname}"

    @property
    def where(self) -> str:
        return f"{self.module.relpath}:{self.node.lineno}"

    def is_abstract(self) -> bool:
        return any(n.endswith("abstractmethod") for n in self.decorator_names)

    def is_classmethod(self) -> bool:
        return "classmethod" in self.decorator_names

    def is_staticmethod(self) -> bool:
        return "staticmethod" in self.decorator_names

    def is_property(self) -> bool:
        return "property" in self.decorator_names

    def is_setter(self) -> bool:
        return any(n.endswith(".setter") for n in self.decorator_names)

    def __repr__(self) -> str:
        return f"<func {self.fq}>"


@dataclass(eq=False)
class ClassInfo:
    module: "Module"
    name: str
    node: ast.ClassDef
    methods: dict[str, list[FuncInfo]] = field(default_factory=dict)
    attrs: dict[str, ast.expr] = field(default_factory=dict)
    attr_order: list[tuple[str, ast.expr]] = field(default_factory=list)
    nested_classes: dict[str, "ClassInfo"] = field(default_factory=dict)
    bases: list[Any] = field(default_factory=list)  # ClassInfo | str(external)
    _mro: list[Any] | None = None

    @property
    def fq(self) -> str:
        return f"{self.module.name}.{self.name}"

    def mro(self) -> list[Any]:
        if self._mro is None:
            self._mro = _c3(self)
        return self._mro

    def repo_mro(self) -> list["ClassInfo"]:
        return [c for c in self.mro() if isinstance(c, ClassInfo)]

    def mro_methods(self) -> dict[str, list["FuncInfo"]]:
        """The methods an instance of this class has: its own and those inherited from repository base classes
        (a class split into base / mixin + original keeps being judged as one class)."""
        out: dict[str, list[FuncInfo]] = {}
        for c in reversed(self.repo_mro()):
            out.update(c.methods)
        return out

    def external_bases(self) -> list[str]:
        return [c for c in self.mro() if isinstance(c, str)]

    def find_method(self, name: str, after: "ClassInfo | None" = None) -> FuncInfo | None:
        """Method found along the MRO (optionally starting after class `after`)."""
        mro = self.repo_mro()
        if after is not None:
            if after not in mro:
                return None
            mro = mro[mro.index(after) + 1 :]
        for c in mro:
            if name in c.methods:
                return c.methods[name][-1]
        return None

    def find_attr(self, name: str) -> tuple["ClassInfo", ast.expr] | None:
        for c in self.repo_mro():
            if name in c.attrs:
                return c, c.attrs[name]
        return None

    def is_subclass_of(self, other: "ClassInfo | str") -> bool:
        return other in self.mro()

    def __repr__(self) -> str:
        return f"<class {self.fq}>"


def _c3(cls: ClassInfo) -> list[Any]:
    seqs = []
    for b in cls.bases:
        if isinstance(b, ClassInfo):
            seqs.append(list(b.mro()))
        else:
            seqs.append([b])
    seqs.append(list(cls.bases))
    res: list[Any] = [cls]
    seqs = [s for s in seqs if s]
    while seqs:
        for s in seqs:
            cand = s[0]
            if not any(cand in t[1:] for t in seqs):
                break
        else:
            raise AnalysisError(f"inconsistent MRO for {cls.fq}")
        res.append(cand)
        # repository classes compare by identity, external bases (full names) by value
        seqs = [[x for x in s if not (x is cand or (isinstance(x, str) and x == cand))] for s in seqs]
        seqs = [s for s in seqs if s]
    return res


@dataclass(eq=False)
class Module:
    name: str
    path: Path
    relpath: str
    src: str
    tree: ast.Module
    imports: dict[str, tuple[str, str | None]] = field(default_factory=dict)
    classes: dict[str, ClassInfo] = field(default_factory=dict)
    functions: dict[str, FuncInfo] = field(default_factory=dict)
    consts: dict[str, ast.expr] = field(default_factory=dict)
    const_order: list[tuple[str, ast.expr]] = field(default_factory=list)
    is_package: bool = False

    def __deepcopy__(self, memo):
        return self  # nodes carry a reference to their module (`_mod`): copying a node must not copy the module

    def __copy__(self):
        return self

    def __repr__(self) -> str:
        return f"<module {self.name}>"


@dataclass
class Def:
    kind: str  # class | func | const | module | external
    obj: Any
    module: Module | None = None
    name: str | None = None


# --------------------------------------------------------------------------


class Program:
    """All modules of the analysed package."""

    def __init__(self, repo_root: str | Path, with_facts: bool = True) -> None:
        self.repo_root = Path(repo_root)
        self.src_root = self.repo_root / "src"
        pkg_dir = self.src_root / PKG
        if not pkg_dir.is_dir():
            raise AnalysisError(f"package directory missing: {pkg_dir}")
        self.modules: dict[str, Module] = {}
        # identifiers of every file: a public class whose name no other file of the package mentions is as private to its
        # module as one spelled with an underscore (sa/flatten.py)
        import re as _re

        idents = {p: set(_re.findall(r"[A-Za-z_]\w*", p.read_text())) for p in sorted(pkg_dir.rglob("*.py"))}
        for p in sorted(pkg_dir.rglob("*.py")):
            foreign = set().union(*[v for q, v in idents.items() if q != p]) if len(idents) > 1 else set()
            rel = p.relative_to(self.src_root)
            parts = list(rel.with_suffix("").parts)
            is_pkg = parts[-1] == "__init__"
            if is_pkg:
                parts = parts[:-1]
            name = ".".join(parts)
            src = p.read_text()
            try:
                from .desugar import desugar

                tree = desugar(ast.parse(src, filename=str(p)))
                if any(isinstance(n, ast.ClassDef) and not n.name.startswith("__") and (n.name.startswith("_") or n.name not in foreign) for n in tree.body):
                    from .flatten import flatten_collaborators, flatten_local_instances

                    flatten_collaborators(tree, foreign)
                    flatten_local_instances(tree, foreign)
            except SyntaxError as err:
                raise AnalysisError(f"cannot parse {p}: {err}") from err
            m = Module(
                name=name,
                path=p,
                relpath=str(Path("src") / rel),
                src=src,
                tree=tree,
                is_package=is_pkg,
            )
            self.modules[name] = m
        for m in self.modules.values():
            self._index_module(m)
        for m in self.modules.values():
            for c in self._all_classes(m):
                c.bases = [self._resolve_base(m, b) for b in c.node.bases]
        # class-body aliases of another class's method (`handle_req = Base.handle_set`)
        for m in self.modules.values():
            for c in self._all_classes(m):
                for name, val in c.__dict__.pop("_pending_aliases", []):
                    d = self.resolve_expr(m, val.value)
                    if d is not None and d.kind == "class":
                        f = d.obj.find_method(val.attr)
                        if f is not None:
                            c.methods.setdefault(name, []).append(f)
                            continue
                    c.attrs[name] = val
                    c.attr_order.append((name, val))
        self._facts: dict | None = None
        self._with_facts = with_facts
        self._expr_types: dict[str, dict] = {}
        self._call_facts: dict[str, dict] = {}
        self._ref_facts: dict[str, dict] = {}
        self.parents: dict[ast.AST, ast.AST] = {}
        self.node_module: dict[ast.AST, Module] = {}
        for m in self.modules.values():
            for parent in ast.walk(m.tree):
                parent._mod = m  # type: ignore[attr-defined]  origin module: survives copy / deepcopy of the node
                for ch in ast.iter_child_nodes(parent):
                    self.parents[ch] = parent
        self.func_of_node: dict[ast.AST, FuncInfo] = {}
        for f in self.all_functions():
            for n in ast.walk(f.node):
                # innermost wins: nested functions are visited later (all_functions is outer-first)
                self.func_of_node[n] = f

    # ---- indexing

    def _all_classes(self, m: Module):
        stack = list(m.classes.values())
        while stack:
            c = stack.pop()
            yield c
            stack.extend(c.nested_classes.values())

    def all_classes(self):
        for m in self.modules.values():
            yield from self._all_classes(m)

    def all_functions(self):
        def rec(f: FuncInfo):
            yield f
            for g in f.nested.values():
                yield from rec(g)

        for m in self.modules.values():
            for f in m.functions.values():
                yield from rec(f)
            for c in self._all_classes(m):
                for fl in c.methods.values():
                    for f in fl:
                        yield from rec(f)

    def _index_module(self, m: Module) -> None:
        def abs_module(level: int, mod: str | None) -> str:
            if level == 0:
                return mod or ""
            base = m.name.split(".")
            if not m.is_package:
                base = base[:-1]
            if level > 1:
                base = base[: len(base) - (level - 1)]
            return ".".join(base + ([mod] if mod else []))

        def index_body(body, in_type_checking=False):
            for st in body:
                if isinstance(st, ast.Import):
                    for a in st.names:
                        local = a.asname or a.name.split(".")[0]
                        target = a.name if a.asname else a.name.split(".")[0]
                        m.imports[local] = (target, None)
                elif isinstance(st, ast.ImportFrom):
                    base = abs_module(st.level, st.module)
                    for a in st.names:
                        m.imports[a.asname or a.name] = (base, a.name)
                elif isinstance(st, (ast.FunctionDef, ast.AsyncFunctionDef)):
                    m.functions[st.name] = self._mk_func(m, st, st.name, None, None)
                elif isinstance(st, ast.ClassDef):
                    m.classes[st.name] = self._mk_class(m, st, st.name)
                elif isinstance(st, ast.Assign):
                    for t in st.targets:
                        if isinstance(t, ast.Name):
                            m.consts[t.id] = st.value
                            m.const_order.append((t.id, st.value))
                elif isinstance(st, ast.AnnAssign) and isinstance(st.target, ast.Name) and st.value is not None:
                    m.consts[st.target.id] = st.value
                    m.const_order.append((st.target.id, st.value))
                elif isinstance(st, ast.If):
                    index_body(st.body)
                    index_body(st.orelse)
                elif isinstance(st, ast.Try):
                    index_body(st.body)

        index_body(m.tree.body)

    def _mk_func(self, m, node, qual, cls, parent) -> FuncInfo:
        f = FuncInfo(module=m, name=node.name, qualname=qual, node=node, cls=cls, parent=parent)

        def find_nested(body):
            for st in body:
                if isinstance(st, (ast.FunctionDef, ast.AsyncFunctionDef)):
                    f.nested[st.name] = self._mk_func(m, st, f"{qual}.<locals>.{st.name}", cls, f)
                elif isinstance(st, ast.ClassDef):
                    continue
                else:
                    for fld in ("body", "orelse", "finalbody"):
                        sub = getattr(st, fld, None)
                        if isinstance(sub, list):
                            find_nested(sub)
                    for h in getattr(st, "handlers", []) or []:
                        find_nested(h.body)

        find_nested(node.body)
        return f

    def _mk_class(self, m, node, qual) -> ClassInfo:
        c = ClassInfo(module=m, name=qual, node=node)
        for st in node.body:
            if isinstance(st, (ast.FunctionDef, ast.AsyncFunctionDef)):
                c.methods.setdefault(st.name, []).append(
                    self._mk_func(m, st, f"{qual}.{st.name}", c, None)
                )
            elif isinstance(st, ast.Assign):
                for t in st.targets:
                    if isinstance(t, ast.Name):
                        if isinstance(st.value, ast.Name) and st.value.id in c.methods:
                            # `handle_req = _handle_unbuffered` in the class body: another name of the same method
                            c.methods.setdefault(t.id, []).append(c.methods[st.value.id][-1])
                            continue
                        if isinstance(st.value, ast.Attribute) and isinstance(st.value.value, ast.Name):
                            # `handle_req = Base.handle_set`: resolved once every class is known (see _link_aliases)
                            c.__dict__.setdefault("_pending_aliases", []).append((t.id, st.value))
                        c.attrs[t.id] = st.value
                        c.attr_order.append((t.id, st.value))
            elif isinstance(st, ast.AnnAssign) and isinstance(st.target, ast.Name):
                if st.value is not None:
                    c.attrs[st.target.id] = st.value
                    c.attr_order.append((st.target.id, st.value))
            elif isinstance(st, ast.ClassDef):
                c.nested_classes[st.name] = self._mk_class(m, st, f"{qual}.{st.name}")
        return c

    def _resolve_base(self, m: Module, expr: ast.expr):
        d = self.resolve_expr(m, expr)
        if d is None:
            return f"<unresolved>.{ast.unparse(expr)}"
        if d.kind == "class":
            return d.obj
        if d.kind == "external":
            return d.obj
        return f"<unresolved>.{ast.unparse(expr)}"

    # ---- name resolution

    def resolve_name(self, m: Module, name: str, _depth: int = 0) -> Def | None:
        if _depth > 20:
            raise AnalysisError(f"import cycle resolving {name} in {m.name}")
        if name in m.classes:
            return Def("class", m.classes[name], m, name)
        if name in m.functions:
            return Def("func", m.functions[name], m, name)
        if name in m.consts:
            return Def("const", m.consts[name], m, name)
        if name in m.imports:
            mod, attr = m.imports[name]
            if attr is None:
                if mod in self.modules:
                    return Def("module", self.modules[mod], self.modules[mod], None)
                return Def("external", mod)
            if mod in self.modules:
                sub = f"{mod}.{attr}"
                tm = self.modules[mod]
                if sub in self.modules and attr not in tm.classes and attr not in tm.functions and attr not in tm.consts and (attr not in tm.imports or tm is m or tm.imports[attr] == (mod, attr)):
                    return Def("module", self.modules[sub], self.modules[sub], None)
                r = self.resolve_name(self.modules[mod], attr, _depth + 1)
                if r is None and sub in self.modules:
                    return Def("module", self.modules[sub], self.modules[sub], None)
                return r
            sub = f"{mod}.{attr}"
            if sub in self.modules:
                return Def("module", self.modules[sub], self.modules[sub], None)
            return Def("external", f"{mod}.{attr}")
        import builtins as _b

        if hasattr(_b, name):
            return Def("external", f"builtins.{name}")
        return None

    def origin(self, m: Module, node: ast.AST) -> Module:
        """The module whose source a node comes from: statement nodes of a helper that was written out into a
        function of another module (sa/inline.py shares them) keep resolving names, types and call facts where
        they were written.  Nodes the analysis synthesised itself belong to the module the caller names."""
        mm = getattr(node, "_mod", None)
        if mm is not None:
            return mm
        nm = getattr(self, "node_module", None)
        return nm.get(node, m) if nm else m

    def resolve_expr(self, m: Module, expr: ast.expr) -> Def | None:
        """Resolve a Name / dotted Attribute statically (module scope)."""
        m = self.origin(m, expr)
        if isinstance(expr, ast.Name):
            return self.resolve_name(m, expr.id)
        if isinstance(expr, ast.Attribute):
            base = self.resolve_expr(m, expr.value)
            if base is None:
                return None
            if base.kind == "module":
                return self.resolve_name(base.obj, expr.attr)
            if base.kind == "external":
                return Def("external", f"{base.obj}.{expr.attr}")
            if base.kind == "class":
                c: ClassInfo = base.obj
                if expr.attr in c.nested_classes:
                    return Def("class", c.nested_classes[expr.attr], c.module, expr.attr)
                f = c.find_method(expr.attr)
                if f is not None:
                    return Def("func", f, f.module, expr.attr)
                a = c.find_attr(expr.attr)
                if a is not None:
                    return Def("classattr", (c, expr.attr, a[1]), a[0].module, expr.attr)
                return None
        if isinstance(expr, ast.Subscript):
            return self.resolve_expr(m, expr.value)
        return None

    def lookup_fullname(self, fullname: str) -> Def | None:
        """Map a mypy fullname onto the model."""
        parts = fullname.split(".")
        for i in range(len(parts), 0, -1):
            mod = ".".join(parts[:i])
            if mod in self.modules:
                m = self.modules[mod]
                rest = parts[i:]
                if not rest:
                    return Def("module", m, m)
                fm = getattr(m.tree, "_flatten_map", None)
                if fm and rest[0] in fm and len(rest) >= 2:
                    # a member of a collaborator class that was flattened into its owner (sa/flatten.py)
                    owner, attr = fm[rest[0]]
                    rest = [owner, f"{attr}__{rest[1]}"] + rest[2:]
                d = self.resolve_name(m, rest[0])
                for seg in rest[1:]:
                    if d is None:
                        return None
                    if d.kind == "class":
                        c: ClassInfo = d.obj
                        if seg in c.nested_classes:
                            d = Def("class", c.nested_classes[seg], c.module, seg)
                            continue
                        f = c.find_method(seg)
                        if f is not None:
                            d = Def("func", f, f.module, seg)
                            continue
                        a = c.find_attr(seg)
                        if a is not None:
                            d = Def("classattr", (c, seg, a[1]), a[0].module, seg)
                            continue
                        return None
                    if d.kind == "module":
                        d = self.resolve_name(d.obj, seg)
                        continue
                    if d.kind == "func":
                        if seg == "<locals>":
                            continue
                        if seg in d.obj.nested:
                            d = Def("func", d.obj.nested[seg], d.obj.module, seg)
                            continue
                    return None
                return d
        return None

    def subclasses(self, c: ClassInfo) -> list[ClassInfo]:
        return [k for k in self.all_classes() if k is not c and c in k.mro()]

    def aliases_of(self, f: "FuncInfo") -> set[str]:
        """Every dotted name under which a module-level function can be imported: where it is defined and where
        it is re-exported (`from ._handlers import get_x` in the package keeps `package.get_x` a name of it)."""
        al = getattr(self, "_aliases", None)
        if al is None:
            al = {}
            for m in self.modules.values():
                for name in m.imports:
                    try:
                        d = self.resolve_name(m, name)
                    except AnalysisError:
                        continue
                    if d is not None and d.kind in ("func", "class"):
                        al.setdefault(d.obj, set()).add(f"{m.name}.{name}")
            self._aliases = al
        return {f.fq} | al.get(f, set())

    def func(self, fq: str) -> FuncInfo:
        d = self.lookup_fullname(fq)
        if d is None or d.kind != "func":
            raise AnalysisError(f"anchor vanished: function {fq}")
        return d.obj

    def cls(self, fq: str) -> ClassInfo:
        d = self.lookup_fullname(fq)
        if d is None or d.kind != "class":
            raise AnalysisError(f"anchor vanished: class {fq}")
        return d.obj

    def module(self, name: str) -> Module:
        if name not in self.modules:
            raise AnalysisError(f"anchor vanished: module {name}")
        return self.modules[name]

    # ---- typed facts

    @property
    def facts(self) -> dict:
        if self._facts is None:
            if not self._with_facts:
                raise AnalysisError("typed facts requested but disabled")
            try:
                self._facts = facts_mod.load_facts(self.src_root)
            except facts_mod.FactsError as err:
                raise AnalysisError(str(err)) from err
        return self._facts

    def _mod_index(self, m: Module):
        if m.name not in self._expr_types:
            mf = self.facts["modules"].get(m.name)
            if mf is None:
                raise AnalysisError(f"mypy produced no facts for module {m.name}")
            et: dict = {}
            for ln, col, eln, ecol, kind, t in mf["exprs"]:
                et.setdefault((ln, col, eln, ecol), []).append((kind, t))
            cf: dict = {}
            for ln, col, eln, ecol, nm, kind, argt in mf["calls"]:
                cf.setdefault((ln, col, eln, ecol), []).append((nm, kind, argt))
            rf: dict = {}
            for ln, col, eln, ecol, kind, fn in mf["refs"]:
                rf.setdefault((ln, col, eln, ecol), []).append((kind, fn))
            self._expr_types[m.name] = et
            self._call_facts[m.name] = cf
            self._ref_facts[m.name] = rf
        return self._expr_types[m.name], self._call_facts[m.name], self._ref_facts[m.name]

    _KIND = {
        ast.Name: "NameExpr",
        ast.Attribute: "MemberExpr",
        ast.Call: "CallExpr",
        ast.Subscript: "IndexExpr",
        ast.Await: "AwaitExpr",
        ast.Compare: "ComparisonExpr",
        ast.BinOp: "OpExpr",
        ast.BoolOp: "OpExpr",
        ast.UnaryOp: "UnaryExpr",
        ast.IfExp: "ConditionalExpr",
        ast.Tuple: "TupleExpr",
        ast.List: "ListExpr",
        ast.Dict: "DictExpr",
        ast.Set: "SetExpr",
        ast.Constant: None,
        ast.JoinedStr: "CallExpr",
    }

    def _pos(self, node: ast.AST):
        return (node.lineno, node.col_offset, node.end_lineno, node.end_col_offset)

    def aiofiles_with_target(self, m: Module, fnode: ast.AST, name: str, depth: int = 0) -> bool:
        """`name` is bound by `async with <open> as name` in fnode where <open> is aiofiles.open(...) or a call of a
        repository function / method whose only return is such a call (the type checker sees Any through an
        unannotated helper)."""
        for w in ast.walk(fnode):
            if not isinstance(w, (ast.With, ast.AsyncWith)):
                continue
            for it in w.items:
                if not (isinstance(it.optional_vars, ast.Name) and it.optional_vars.id == name):
                    continue
                ce = it.context_expr.value if isinstance(it.context_expr, ast.Await) else it.context_expr
                if self._is_aiofiles_open(m, ce, 0):
                    return True
        return False

    def _is_aiofiles_open(self, m: Module, ce: ast.expr, depth: int) -> bool:
        if not isinstance(ce, ast.Call) or depth > 2:
            return False
        mm = self.origin(m, ce)
        d = self.resolve_expr(mm, ce.func) if isinstance(ce.func, (ast.Name, ast.Attribute)) else None
        if d is not None and d.kind == "external" and d.obj in ("aiofiles.open", "aiofiles.threadpool.open"):
            return True
        hs = []
        if d is not None and d.kind == "func":
            hs = [d.obj]
        elif isinstance(ce.func, ast.Attribute) and isinstance(ce.func.value, ast.Name) and ce.func.value.id in ("self", "cls"):
            hs = [f for c in self.all_classes() if c.module is mm for f in c.methods.get(ce.func.attr, [])]
        for h in hs:
            rets = [n.value for n in ast.walk(h.node) if isinstance(n, ast.Return) and n.value is not None]
            if len(rets) == 1 and self._is_aiofiles_open(h.module, rets[0], depth + 1):
                return True
        return False

    def type_of(self, m: Module, node: ast.expr) -> str | None:
        m = self.origin(m, node)
        et, _, _ = self._mod_index(m)
        lst = et.get(self._pos(node))
        if not lst:
            return None
        want = self._KIND.get(type(node))
        for kind, t in lst:
            if kind == want:
                return t
        return lst[0][1]

    def protocol_impl(self) -> dict[str, str]:
        """{repository Protocol class -> the one class whose instances are stored where the protocol is expected}.

        A `typing.Protocol` introduced for an implicit interface (`self._client: BrokerClient | None`) changes what
        mypy reports for calls through it (BrokerClient.publish instead of aiomqtt's Client.publish) but not what
        runs: when every value stored into the places annotated with the protocol is an instance of one class, calls
        through the protocol are calls of that class."""
        cached = getattr(self, "_protocol_impl", None)
        if cached is not None:
            return cached
        protos = {c.fq: c for c in self.all_classes() if any(isinstance(b, str) and b.rsplit(".", 1)[-1] == "Protocol" for b in c.bases)}
        out: dict[str, str] = {}
        if protos:
            anns: dict[str, set] = {}  # attribute name -> protocol fqs it is annotated with
            for f in self.all_functions():
                for n in ast.walk(f.node):
                    ann_ = n.annotation if isinstance(n, ast.AnnAssign) else getattr(n, "_annotation", None)
                    tgt_ = n.target if isinstance(n, ast.AnnAssign) else n.targets[0] if isinstance(n, ast.Assign) and len(n.targets) == 1 else None
                    if ann_ is not None and isinstance(tgt_, ast.Attribute):
                        for x in ast.walk(ann_):
                            if isinstance(x, (ast.Name, ast.Attribute)):
                                d = self.resolve_expr(f.module, x)
                                if d is not None and d.kind == "class" and d.obj.fq in protos:
                                    anns.setdefault(tgt_.attr, set()).add(d.obj.fq)
            impls: dict[str, set] = {}
            for f in self.all_functions():
                for n in ast.walk(f.node):
                    tg = n.targets if isinstance(n, ast.Assign) else [n.target] if isinstance(n, ast.AnnAssign) and n.value is not None else []
                    for t in tg:
                        if isinstance(t, ast.Attribute) and t.attr in anns and not (isinstance(n.value, ast.Constant) and n.value.value is None):
                            ty = None
                            if isinstance(n.value, ast.Call):
                                fact = self._raw_call_fact(f.module, n.value)
                                ty = fact[0] if fact else None
                            for p_ in anns[t.attr]:
                                impls.setdefault(p_, set()).add(ty)
            for p_, tys in impls.items():
                if len(tys) == 1 and None not in tys:
                    out[p_] = next(iter(tys))
        self._protocol_impl = out
        return out

    def _flat_name(self, full: str) -> str:
        """`mod.C.m` -> `mod.O.<a>__m` for a collaborator class C flattened into O (sa/flatten.py)."""
        fms = getattr(self, "_flat_maps", None)
        if fms is None:
            fms = self._flat_maps = {f"{mod.name}.{c}": (f"{mod.name}.{o}", a) for mod in self.modules.values() for c, (o, a) in (getattr(mod.tree, "_flatten_map", None) or {}).items()}
        if not fms:
            return full
        for cfq, (ofq, a) in fms.items():
            if full.startswith(cfq + "."):
                rest = full[len(cfq) + 1 :]
                head, _, tail = rest.partition(".")
                return f"{ofq}.{a}__{head}" + (f".{tail}" if tail else "")
        return full

    def call_fact(self, m: Module, node: ast.Call):
        fact = self._raw_call_fact(m, node)
        if fact and fact[0] and getattr(self.origin(m, node).tree, "_flatten_map", None):
            fact = ("|".join(self._flat_name(one) for one in fact[0].split("|")),) + tuple(fact[1:])
        if fact and fact[0] and fact[0].startswith("aiomysensors."):
            impl = self.protocol_impl()
            if impl:
                owner, _, meth = fact[0].rpartition(".")
                if owner in impl:
                    return (f"{impl[owner]}.{meth}",) + tuple(fact[1:])
        return fact

    def _raw_call_fact(self, m: Module, node: ast.Call):
        m = self.origin(m, node)
        _, cf, _ = self._mod_index(m)
        lst = cf.get(self._pos(node))
        if not lst:
            # calls inside f-strings: mypy reports other columns; match by (line, callee tail)
            tail = node.func.attr if isinstance(node.func, ast.Attribute) else node.func.id if isinstance(node.func, ast.Name) else None
            if tail is None:
                return None
            cands = []
            for (ln, _c, _el, _ec), facts_ in cf.items():
                if ln == node.lineno:
                    for f in facts_:
                        if f[0] and (f[0] == tail or f[0].endswith("." + tail)) and len(f[2]) == len(node.args) + len(node.keywords):
                            cands.append(f)
            uniq = {c[0] for c in cands}
            if len(uniq) == 1:
                return cands[0]
            return None
        return lst[0]

    def ref_fullname(self, m: Module, node: ast.expr) -> str | None:
        m = self.origin(m, node)
        _, _, rf = self._mod_index(m)
        lst = rf.get(self._pos(node))
        if not lst:
            return None
        return lst[0][1]

    def mro_of(self, fullname: str) -> list[str] | None:
        mro = self.facts["mro"].get(fullname)
        if mro is not None:
            return mro
        d = self.lookup_fullname(fullname)
        if d is not None and d.kind == "class":
            out = []
            for c in d.obj.mro():
                if isinstance(c, ClassInfo):
                    out.append(c.fq)
                else:
                    ext = self.facts["mro"].get(c)
                    if ext:
                        out.extend(ext)
                    else:
                        out.append(c)
            return out
        return None

    # ---- helpers

    def module_of(self, node: ast.AST) -> Module:
        f = self.func_of_node.get(node)
        if f is not None:
            return f.module
        cur = node
        while cur in self.parents:
            cur = self.parents[cur]
        for m in self.modules.values():
            if m.tree is cur:
                return m
        raise AnalysisError("node without module")

    def seg(self, m: Module, node: ast.AST) -> str:
        return ast.get_source_segment(m.src, node) or ast.unparse(node)


def norm(node: ast.AST | str) -> str:
    """Normalised text of a construct (keys for findings; formatting-insensitive)."""
    if isinstance(node, str):
        return " ".join(node.split())
    return " ".join(ast.unparse(node).split())


# --------------------------------------------------------------------------
# E3 constant folder


@dataclass(frozen=True)
class EnumVal:
    cls: str  # enum class fq
    name: str
    value: Any

    def __int__(self) -> int:
        return int(self.value)


class Unfoldable(Exception):
    pass


class Rec(tuple):
    """Folded value of a NamedTuple / dataclass constructed from constants: a tuple of the field values in
    declaration order that also answers attribute access."""

    _names: tuple = ()
    _cls: str = ""

    def __new__(cls, names, values, clsname=""):
        self = super().__new__(cls, values)
        self._names = tuple(names)
        self._cls = clsname
        return self

    def field(self, name: str):
        return self[self._names.index(name)]


class Sentinel:
    """Folded value of a module-level `object()`: equal only to itself."""

    def __init__(self, name: str) -> None:
        self.name = name

    def __repr__(self) -> str:
        return f"<sentinel {self.name}>"

    def __eq__(self, other) -> bool:
        return isinstance(other, Sentinel) and other.name == self.name

    def __hash__(self) -> int:
        return hash(("sentinel", self.name))


def record_fields_of(c: "ClassInfo") -> list[tuple[str, ast.expr | None]] | None:
    """(field, default expr) in constructor order for a dataclass / NamedTuple class without its own __init__."""
    if c.find_method("__init__") is not None:
        return None
    is_dc = any(ast.unparse(d).split("(")[0].split(".")[-1] == "dataclass" for d in c.node.decorator_list)
    is_nt = any(ast.unparse(b).split(".")[-1] == "NamedTuple" for k in c.repo_mro() for b in k.node.bases)
    if not (is_dc or is_nt):
        return None
    out: list[tuple[str, ast.expr | None]] = []
    for k in reversed(c.repo_mro()):
        for st in k.node.body:
            if isinstance(st, ast.AnnAssign) and isinstance(st.target, ast.Name) and "ClassVar" not in ast.unparse(st.annotation):
                dflt = st.value
                if isinstance(dflt, ast.Call) and ast.unparse(dflt.func).split(".")[-1] == "field":
                    if any(kw.arg == "init" and isinstance(kw.value, ast.Constant) and kw.value.value is False for kw in dflt.keywords):
                        continue
                    dflt = next((kw.value for kw in dflt.keywords if kw.arg == "default"), None)
                out = [x for x in out if x[0] != st.target.id] + [(st.target.id, dflt)]
    return out


class Folder:
    """Static evaluation of module/class level constant expressions."""

    def __init__(self, prog: Program) -> None:
        self.prog = prog
        self._enum_cache: dict[str, list[tuple[str, Any]]] = {}

    def is_enum(self, c: ClassInfo) -> bool:
        return any(isinstance(b, str) and b.split(".")[-1] in ("IntEnum", "Enum", "IntFlag", "StrEnum") for b in c.mro())

    def enum_members(self, c: ClassInfo) -> list[tuple[str, Any]]:
        """Ordered (name, value) pairs of an Enum body (aliases included)."""
        if c.fq in self._enum_cache:
            return self._enum_cache[c.fq]
        if not self.is_enum(c):
            raise AnalysisError(f"{c.fq} is not an Enum")
        out = []
        for name, val in c.attr_order:
            if name.startswith("_"):
                continue
            try:
                v = self.fold(c.module, val)
            except Unfoldable as err:
                raise AnalysisError(f"cannot fold enum member {c.fq}.{name}: {err}") from err
            if isinstance(v, EnumVal):
                v = v.value
            out.append((name, v))
        self._enum_cache[c.fq] = out
        return out

    def enum_canonical(self, c: ClassInfo) -> dict[Any, str]:
        out: dict[Any, str] = {}
        for name, v in self.enum_members(c):
            out.setdefault(v, name)
        return out

    def enum_values(self, c: ClassInfo) -> list[Any]:
        return list(self.enum_canonical(c))

    def fold(self, m: Module, expr: ast.expr, local: dict[str, Any] | None = None) -> Any:
        p = self.prog
        m = p.origin(m, expr)
        if isinstance(expr, ast.NamedExpr):
            return self.fold(m, expr.value, local)
        if isinstance(expr, ast.Constant):
            return expr.value
        if isinstance(expr, ast.Name):
            if local and expr.id in local:
                return local[expr.id]
            d = p.resolve_name(m, expr.id)
            if d is None:
                raise Unfoldable(f"unknown name {expr.id}")
            if d.kind == "const":
                return self.fold(d.module, d.obj)
            raise Unfoldable(f"name {expr.id} is a {d.kind}")
        if isinstance(expr, ast.Attribute):
            # Enum.member, Enum.member.value, module.CONST
            if expr.attr == "value":
                v = self.fold(m, expr.value, local)
                if isinstance(v, EnumVal):
                    return v.value
                raise Unfoldable(".value of non-enum")
            d = p.resolve_expr(m, expr.value)
            if d is not None and d.kind == "class" and self.is_enum(d.obj):
                for name, v in self.enum_members(d.obj):
                    if name == expr.attr:
                        return EnumVal(d.obj.fq, name, v)
                raise Unfoldable(f"{d.obj.fq} has no member {expr.attr}")
            if d is not None and d.kind == "module":
                dd = p.resolve_name(d.obj, expr.attr)
                if dd is not None and dd.kind == "const":
                    return self.fold(dd.module, dd.obj)
            # field of a record constant (`_CONSTANTS.timeout`)
            try:
                base = self.fold(m, expr.value, local)
            except Unfoldable:
                base = None
            if isinstance(base, Rec) and expr.attr in base._names:
                return base.field(expr.attr)
            raise Unfoldable(f"attribute {ast.unparse(expr)}")
        if isinstance(expr, (ast.Tuple, ast.List)):
            vals = [self.fold(m, e, local) for e in expr.elts]
            return tuple(vals) if isinstance(expr, ast.Tuple) else vals
        if isinstance(expr, ast.Set):
            return frozenset(self._plain(self.fold(m, e, local)) for e in expr.elts)
        if isinstance(expr, ast.Dict):
            out = {}
            for k, v in zip(expr.keys, expr.values):
                if k is None:
                    raise Unfoldable("dict unpack")
                out[self._plain(self.fold(m, k, local))] = self.fold(m, v, local)
            return out
        if isinstance(expr, ast.UnaryOp) and isinstance(expr.op, ast.USub):
            return -self._plain(self.fold(m, expr.operand, local))
        if isinstance(expr, ast.BinOp):
            a = self._plain(self.fold(m, expr.left, local))
            b = self._plain(self.fold(m, expr.right, local))
            if isinstance(expr.op, ast.Add):
                return a + b
            if isinstance(expr.op, ast.Sub):
                return a - b
            if isinstance(expr.op, ast.Mult):
                return a * b
            raise Unfoldable("binop")
        if isinstance(expr, ast.Call):
            fn = expr.func
            if isinstance(fn, ast.Name) and fn.id in ("set", "frozenset", "tuple", "list") and len(expr.args) == 1 and not expr.keywords:
                dk = p.resolve_expr(m, expr.args[0]) if isinstance(expr.args[0], (ast.Name, ast.Attribute)) and not (local and isinstance(expr.args[0], ast.Name) and expr.args[0].id in local) else None
                if dk is not None and dk.kind == "class" and self.is_enum(dk.obj):
                    # iterating an enum class yields its canonical members (aliases are skipped), as numbers here
                    return {"set": frozenset, "frozenset": frozenset, "tuple": tuple, "list": list}[fn.id](list(self.enum_canonical(dk.obj)))
                v = self.fold(m, expr.args[0], local)
                seq = [self._plain(x) for x in v]
                return {"set": frozenset, "frozenset": frozenset, "tuple": tuple, "list": list}[fn.id](seq)
            if isinstance(fn, ast.Name) and fn.id == "len" and len(expr.args) == 1:
                return len(self.fold(m, expr.args[0], local))
            if isinstance(fn, ast.Name) and fn.id == "int" and len(expr.args) == 1:
                return int(self._plain(self.fold(m, expr.args[0], local)))
            if isinstance(fn, ast.Name) and fn.id == "object" and not expr.args and not expr.keywords:
                return Sentinel(f"{m.name}:{expr.lineno}")
            dcls = p.resolve_expr(m, fn) if isinstance(fn, (ast.Name, ast.Attribute)) else None
            if dcls is not None and dcls.kind == "class":
                flds = record_fields_of(dcls.obj)
                if flds is not None and not any(isinstance(a, ast.Starred) for a in expr.args) and all(k.arg for k in expr.keywords) and len(expr.args) <= len(flds):
                    given = {n: a for (n, _d), a in zip(flds, expr.args)}
                    for k in expr.keywords:
                        given[k.arg] = k.value
                    vals = []
                    for n, dflt in flds:
                        if n in given:
                            vals.append(self.fold(m, given[n], local))
                        elif dflt is not None:
                            vals.append(self.fold(dcls.obj.module, dflt))
                        else:
                            raise Unfoldable(f"field {n} of {dcls.obj.name} not given")
                    return Rec([n for n, _ in flds], vals, dcls.obj.fq)
            if isinstance(fn, ast.Name) and fn.id == "range" and 1 <= len(expr.args) <= 3 and not expr.keywords:
                vals = [self._plain(self.fold(m, a, local)) for a in expr.args]
                if all(isinstance(v, int) and not isinstance(v, bool) for v in vals):
                    return range(*vals)
            if isinstance(fn, ast.Name) and fn.id in ("min", "max") and len(expr.args) == 1 and not expr.keywords:
                seq = [self._plain(x) for x in self.fold(m, expr.args[0], local)]
                if seq:
                    return (min if fn.id == "min" else max)(seq)
            raise Unfoldable(f"call {ast.unparse(expr)[:60]}")
        if isinstance(expr, ast.Subscript) and not isinstance(expr.slice, ast.Slice):
            base = self.fold(m, expr.value, local)
            idx = self._plain(self.fold(m, expr.slice, local))
            if isinstance(base, (range, tuple, list)) and isinstance(idx, int):
                try:
                    return base[idx]
                except IndexError as err:
                    raise Unfoldable(f"index {idx} out of range") from err
            if isinstance(base, dict):
                try:
                    return base[idx]
                except (KeyError, TypeError) as err:
                    raise Unfoldable("missing key") from err
            raise Unfoldable("subscript")
        if isinstance(expr, ast.UnaryOp) and isinstance(expr.op, ast.USub):
            v = self._plain(self.fold(m, expr.operand, local))
            if isinstance(v, (int, float)):
                return -v
            raise Unfoldable("unary")
        if isinstance(expr, ast.JoinedStr):
            parts = []
            for v in expr.values:
                if isinstance(v, ast.Constant):
                    parts.append(str(v.value))
                elif isinstance(v, ast.FormattedValue) and v.format_spec is None and v.conversion == -1:
                    parts.append(str(self._plain(self.fold(m, v.value, local))))
                else:
                    raise Unfoldable("fstring")
            return "".join(parts)
        raise Unfoldable(type(expr).__name__)

    @staticmethod
    def _plain(v: Any) -> Any:
        return v.value if isinstance(v, EnumVal) else v

    def plain(self, v: Any) -> Any:
        if isinstance(v, EnumVal):
            return v.value
        if isinstance(v, (set, frozenset)):
            return frozenset(self.plain(x) for x in v)
        if isinstance(v, Rec):
            return Rec(v._names, [self.plain(x) for x in v], v._cls)
        if isinstance(v, tuple):
            return tuple(self.plain(x) for x in v)
        if isinstance(v, list):
            return [self.plain(x) for x in v]
        return v

    def const(self, m: Module, name: str) -> Any:
        d = self.prog.resolve_name(m, name)
        if d is None or d.kind != "const":
            raise AnalysisError(f"anchor vanished: constant {m.name}.{name}")
        try:
            return self.fold(d.module, d.obj)
        except Unfoldable as err:
            raise AnalysisError(f"cannot fold {m.name}.{name}: {err}") from err
