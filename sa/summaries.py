"""Trusted base: what external callees may raise (DESIGN.md section 3).

Each entry: fullname -> Summary(raises=[exception fullnames], why=source read).
`raises` may be a callable taking the list of mypy argument type strings.
Only `Exception` subclasses are listed; BaseException-only classes
(CancelledError, KeyboardInterrupt, ...) are outside the escape analysis.
"""

from __future__ import annotations

from dataclasses import dataclass
from typing import Callable

VE = "builtins.ValueError"
TE = "builtins.TypeError"
KE = "builtins.KeyError"
IE = "builtins.IndexError"
AE = "builtins.AttributeError"
OSE = "builtins.OSError"
OFE = "builtins.OverflowError"
RE_ = "builtins.RecursionError"
UDE = "builtins.UnicodeDecodeError"
MMVE = "marshmallow.exceptions.ValidationError"
MQTTE = "aiomqtt.exceptions.MqttError"
AVCE = "awesomeversion.exceptions.AwesomeVersionCompareException"
LIMIT = "asyncio.exceptions.LimitOverrunError"
INCOMPLETE = "asyncio.exceptions.IncompleteReadError"


@dataclass
class Summary:
    raises: list | Callable
    why: str
    taints_result: bool = False

    def get(self, argtypes) -> list:
        if callable(self.raises):
            return self.raises(argtypes or [])
        return list(self.raises)


def _num_arg(argtypes) -> str | None:
    return argtypes[0] if argtypes else None


_SAFE_INT_ARGS = ("builtins.int", "int", "builtins.bool", "bool", "Literal[")


def _int_raises(argtypes):
    a = _num_arg(argtypes)
    if a is None:
        return []
    if a.startswith(_SAFE_INT_ARGS) or ".IntEnum" in a:
        return []
    if a in ("builtins.float", "float", "decimal.Decimal"):
        return [VE, OFE]  # int(nan) / int(inf)
    # Literal enum members of IntEnum types print as Literal[...]; str / Any / unknown:
    return [VE] if a in ("builtins.str", "str") else [VE, TE]


def _float_raises(argtypes):
    a = _num_arg(argtypes)
    if a is None:
        return []
    if a in ("builtins.int", "int", "builtins.float", "float", "builtins.bool", "bool"):
        return []
    return [VE] if a in ("builtins.str", "str") else [VE, TE]


def _round_raises(argtypes):
    a = _num_arg(argtypes)
    if a in ("builtins.int", "int", "builtins.bool", "bool"):
        return []
    if len(argtypes) >= 2:
        return []  # round(x, n) returns float, never raises for float x
    return [VE, OFE]  # round(nan) ValueError, round(inf) OverflowError


def _executor_raises(argtypes):
    return [OSE] if any(a and ("PathLike" in a or "StrOrBytesPath" in a or "StrPath" in a or "FileDescriptor" in a) for a in argtypes) else []


def _deepcopy_raises(argtypes):
    a = _num_arg(argtypes)
    if a is None or "Any" in a or a in ("builtins.object", "object"):
        return [RE_]
    return []


def _max_raises(argtypes):
    return [VE]  # empty iterable; discharged by a non-empty guard (EEA)


NONE: list = []

SUMMARIES: dict[str, Summary] = {
    # ---- builtins
    "builtins.int": Summary(_int_raises, "language: int(str) ValueError; int(int|bool|IntEnum) total"),
    "builtins.float": Summary(_float_raises, "language: float(str) ValueError"),
    "decimal.Decimal": Summary(lambda argtypes: ["decimal.InvalidOperation"] if _num_arg(argtypes) in ("builtins.str", "str") else [] if _num_arg(argtypes) in ("builtins.int", "int", "builtins.float", "float", "decimal.Decimal", None) else ["decimal.InvalidOperation", TE, VE], "stdlib: Decimal(str) raises InvalidOperation (an ArithmeticError) for malformed text under the default context; Decimal(int|float) total"),
    "builtins.round": Summary(_round_raises, "language: round(nan) ValueError, round(inf) OverflowError"),
    "builtins.str": Summary(NONE, "str() of int/str/enum/exception: total (A3)"),
    "builtins.bool": Summary(NONE, "total"),
    "builtins.repr": Summary(NONE, "total for repo objects"),
    "builtins.len": Summary(NONE, "sized builtin containers"),
    "builtins.max": Summary(_max_raises, "max(empty) ValueError"),
    "builtins.min": Summary(_max_raises, "min(empty) ValueError"),
    "builtins.sorted": Summary(NONE, "sorted of str keys"),
    "builtins.list": Summary(NONE, "list(iterable of builtin container)"),
    "builtins.tuple": Summary(NONE, "tuple(iterable)"),
    "builtins.set": Summary(NONE, "set(iterable of hashables)"),
    "builtins.dict": Summary(NONE, "dict(iterable of pairs from zip)"),
    "builtins.zip": Summary(NONE, "zip(...) lazily; strict=False never raises"),
    "builtins.enumerate": Summary(NONE, "total"),
    "itertools.product": Summary(NONE, "cartesian product of iterables (tuples / sets / ranges of the package): never raises for iterable arguments"),
    "builtins.isinstance": Summary(NONE, "total"),
    "builtins.type": Summary(NONE, "total"),
    "builtins.next": Summary(["builtins.StopIteration"], "next(it) without default; with default total", ),
    "builtins.print": Summary(NONE, "cli only"),
    "builtins.object.__init__": Summary(NONE, "total"),
    "builtins.Exception.__init__": Summary(NONE, "total"),
    "builtins.BaseException.__init__": Summary(NONE, "total"),
    "builtins.str.split": Summary(NONE, "total for non-empty literal separator"),
    "builtins.str.rsplit": Summary(NONE, "total for non-empty literal separator"),
    "builtins.str.rstrip": Summary(NONE, "total"),
    "builtins.str.strip": Summary(NONE, "total"),
    "builtins.str.lstrip": Summary(NONE, "total"),
    "builtins.str.join": Summary(NONE, "join of list[str] (mypy-checked)"),
    "builtins.str.replace": Summary(NONE, "total"),
    "builtins.str.partition": Summary(NONE, "total for non-empty separator"),
    "builtins.str.rpartition": Summary(NONE, "total for non-empty separator"),
    "builtins.str.lower": Summary(NONE, "total"),
    "builtins.str.upper": Summary(NONE, "total"),
    "builtins.str.format": Summary(NONE, "f-string pseudo call"),
    "builtins.str.startswith": Summary(NONE, "total"),
    "builtins.str.endswith": Summary(NONE, "total"),
    "builtins.str.encode": Summary(NONE, "UnicodeEncodeError only for lone surrogates - assumed absent (A4)"),
    "builtins.str.isdigit": Summary(NONE, "total"),
    "builtins.str.isdecimal": Summary(NONE, "total"),
    "builtins.str.count": Summary(NONE, "total"),
    "builtins.bytes.decode": Summary([UDE], "bytes.decode() strict utf-8"),
    "builtins.dict.get": Summary(NONE, "total for hashable key"),
    "builtins.dict.items": Summary(NONE, "total"),
    "builtins.dict.values": Summary(NONE, "total"),
    "builtins.dict.keys": Summary(NONE, "total"),
    "builtins.dict.copy": Summary(NONE, "total"),
    "builtins.dict.setdefault": Summary(NONE, "total"),
    "builtins.dict.update": Summary(NONE, "total for mapping argument"),
    "builtins.dict.clear": Summary(NONE, "total"),
    "builtins.dict.pop": Summary(lambda a: [KE] if len(a) < 2 else [], "1-arg pop raises KeyError when absent (guard-dischargeable)"),
    "builtins.list.append": Summary(NONE, "total"),
    "builtins.list.extend": Summary(NONE, "total"),
    "builtins.set.add": Summary(NONE, "total"),
    "builtins.set.discard": Summary(NONE, "total"),
    "typing.Mapping.get": Summary(NONE, "total for hashable key"),
    "typing.cast": Summary(NONE, "identity"),
    "enum.IntEnum.__call__": Summary([VE], "Enum(value) lookup: ValueError for unknown value"),
    # ---- stdlib
    "logging.getLogger": Summary(NONE, "total"),
    "logging.Logger.debug": Summary(NONE, "logging swallows formatting errors (logging.raiseExceptions only prints)"),
    "logging.Logger.info": Summary(NONE, "as debug"),
    "logging.Logger.warning": Summary(NONE, "as debug"),
    "logging.Logger.error": Summary(NONE, "as debug"),
    "logging.Logger.exception": Summary(NONE, "as debug"),
    "json.loads": Summary(
        ["json.decoder.JSONDecodeError", RE_, VE],
        "json/decoder.py: JSONDecodeError(ValueError); deep nesting -> RecursionError (reproduced with 100000 x '['); an integer literal beyond the 4300-digit conversion limit -> plain ValueError",
        taints_result=True,
    ),
    "json.dumps": Summary(NONE, "dict of marshmallow-dumped primitives with int/str keys; sort_keys over int keys only (A3)"),
    "calendar.timegm": Summary(NONE, "arithmetic on a struct_time"),
    "time.localtime": Summary(NONE, "no argument: current time"),
    "time.time": Summary(NONE, "total"),
    "uuid.uuid4": Summary(NONE, "total"),
    "dataclasses.field": Summary(NONE, "class-body only"),
    "functools.wraps": Summary(NONE, "decorator factory"),
    "contextlib.suppress": Summary(NONE, "constructor"),
    "asyncio.timeouts.timeout": Summary(NONE, "constructor of the context manager; the TimeoutError is raised when the `async with` block is left (CM_EXIT_RAISES)"),
    "asyncio.timeouts.timeout_at": Summary(NONE, "constructor of the context manager; see CM_EXIT_RAISES"),
    "asyncio.tasks.sleep": Summary(NONE, "only CancelledError (BaseException)"),
    "asyncio.tasks.create_task": Summary(NONE, "needs a running loop (always true inside a coroutine)"),
    "asyncio.tasks.gather": Summary("GATHER", "propagates the first exception of its awaitables (modelled: union of argument coroutines)"),
    "_asyncio.Future.cancel": Summary(NONE, "total"),
    "_asyncio.Task.cancel": Summary(NONE, "total"),
    "asyncio.queues.Queue": Summary(NONE, "constructor"),
    "asyncio.queues.Queue.get": Summary(NONE, "only cancellation"),
    "asyncio.queues.Queue.put_nowait": Summary(NONE, "QueueFull only for bounded queues; Queue() is unbounded (FIFO-1 checks the constructor)"),
    "asyncio.queues.Queue.task_done": Summary([VE], "ValueError if called more often than get() - each call follows one get (triaged)"),
    "asyncio.streams.open_connection": Summary([OSE], "socket errors are OSError"),
    "asyncio.streams.StreamReader.readuntil": Summary([LIMIT, INCOMPLETE, OSE], "asyncio/streams.py readuntil: LimitOverrunError, IncompleteReadError; transport exception (OSError family) via set_exception"),
    "asyncio.streams.StreamReader.readline": Summary([VE, OSE], "readline converts LimitOverrunError to ValueError"),
    "asyncio.streams.StreamReader.read": Summary([OSE], "transport exception"),
    "asyncio.streams.StreamWriter.write": Summary(NONE, "buffers; errors surface in drain"),
    "asyncio.streams.StreamWriter.drain": Summary([OSE], "ConnectionResetError etc."),
    "asyncio.streams.StreamWriter.close": Summary(NONE, "total"),
    "asyncio.streams.StreamWriter.get_extra_info": Summary(NONE, "dictionary lookup with a default"),
    "asyncio.transports.BaseTransport.get_extra_info": Summary(NONE, "dictionary lookup with a default"),
    "_struct.pack": Summary(NONE, "constant format and integer arguments (struct.error only for a mismatching format)"),
    "socket.socket.setsockopt": Summary([OSE], "setsockopt(2) failure"),
    "_socket.socket.setsockopt": Summary([OSE], "setsockopt(2) failure"),
    "asyncio.streams.StreamWriter.wait_closed": Summary([OSE], "re-raises the connection-lost exception"),
    "serial_asyncio.open_serial_connection": Summary([OSE], "serial.SerialException subclasses OSError (serial/serialutil.py:92)"),
    # ---- aiofiles
    "aiofiles.threadpool.open": Summary([OSE], "open() in a worker thread: OSError family; context exit closes (OSError)"),
    "aiofiles.threadpool.text._UnknownAsyncTextIO.read": Summary([OSE, UDE], "text-mode read: OSError, UnicodeDecodeError"),
    "aiofiles.threadpool.text._UnknownAsyncTextIO.write": Summary([OSE], "text-mode write"),
    "aiofiles.threadpool.text.AsyncTextIOWrapper.read": Summary([OSE, UDE], "text-mode read"),
    "aiofiles.threadpool.text.AsyncTextIOWrapper.write": Summary([OSE], "text-mode write"),
    "aiofiles.os.replace": Summary([OSE], "os.replace in a worker thread"),
    "aiofiles.os.rename": Summary([OSE], "os.rename in a worker thread"),
    "aiofiles.os.remove": Summary([OSE], "os.remove in a worker thread"),
    "os.replace": Summary([OSE], "POSIX rename"),
    "os.rename": Summary([OSE], "POSIX rename"),
    "os.remove": Summary([OSE], "unlink"),
    "os.fsync": Summary([OSE], "fsync"),
    # ---- marshmallow (schema.py, fields.py, validate.py of 3.26.2)
    "marshmallow.schema.Schema.load": Summary("MM-LOAD", "schema.py _do_load: pre_load hooks run on raw input, then field deserialisation raises ValidationError only, then post_load hooks"),
    "marshmallow.schema.Schema.dump": Summary("MM-DUMP", "schema.py dump: field serialisers on typed attributes (A3), then post_dump hooks"),
    "marshmallow.schema.Schema.loads": Summary("MM-LOAD", "as load after json parse"),
    "marshmallow.validate.Range": Summary(NONE, "constructor"),
    "marshmallow.validate.OneOf": Summary(NONE, "constructor"),
    "marshmallow.validate.Range.__call__": Summary([MMVE], "validate.py Range.__call__ raises ValidationError"),
    "marshmallow.validate.OneOf.__call__": Summary([MMVE], "validate.py OneOf.__call__ raises ValidationError"),
    "marshmallow.exceptions.ValidationError": Summary(NONE, "constructor"),
    "marshmallow.fields.Int": Summary(NONE, "field constructor (class body)"),
    "marshmallow.fields.Str": Summary(NONE, "field constructor (class body)"),
    "marshmallow.fields.Dict": Summary(NONE, "field constructor (class body)"),
    "marshmallow.fields.Nested": Summary(NONE, "field constructor (class body)"),
    "marshmallow.fields.Bool": Summary(NONE, "field constructor (class body)"),
    "marshmallow.fields.Field.__init__": Summary(NONE, "field constructor"),
    # ---- awesomeversion 24.6.0
    "awesomeversion.awesomeversion.AwesomeVersion": Summary(NONE, "awesomeversion.py __new__/__init__: never raises for str input without ensure_strategy"),
    "awesomeversion.awesomeversion.AwesomeVersion.__cmp__": Summary([AVCE], "awesomeversion.py:146-185 compare: AwesomeVersionCompareException for UNKNOWN strategy"),
    # ---- aiomqtt 2.x (client.py)
    "aiomqtt.client.Client": Summary(NONE, "constructor"),
    "aiomqtt.client.Client.__aenter__": Summary([MQTTE], "client.py __aenter__: MqttError on connect failure (MqttCodeError/MqttConnectError subclasses)"),
    "aiomqtt.client.Client.__aexit__": Summary([MQTTE], "client.py __aexit__: MqttError on disconnect failure"),
    "aiomqtt.client.Client.publish": Summary([MQTTE], "client.py publish: MqttCodeError/MqttError (timeout)"),
    "aiomqtt.client.Client.subscribe": Summary([MQTTE], "client.py subscribe: MqttCodeError/MqttError (timeout)"),
    "aiomqtt.client.MessagesIterator.__anext__": Summary([MQTTE], "client.py messages iterator: MqttError when the connection is lost"),
    "aiomqtt.client.Client.messages.__anext__": Summary([MQTTE], "Client.messages is the MessagesIterator above (reached through an interface type)"),
    # ---- exceptions as callables
    "builtins.RuntimeError": Summary(NONE, "constructor"),
    "builtins.ValueError": Summary(NONE, "constructor"),
    "builtins.TypeError": Summary(NONE, "constructor"),
    "builtins.KeyError": Summary(NONE, "constructor"),
    "builtins.OSError": Summary(NONE, "constructor"),
}

for _m in ("get", "items", "values", "keys", "copy", "setdefault", "update", "clear", "pop"):
    for _base in ("typing.MutableMapping", "typing.Mapping", "collections.abc.MutableMapping", "collections.abc.Mapping"):
        if f"builtins.dict.{_m}" in SUMMARIES:
            SUMMARIES.setdefault(f"{_base}.{_m}", SUMMARIES[f"builtins.dict.{_m}"])
SUMMARIES.update(
    {
        "builtins.dict.popitem": Summary([KE], "popitem() on an empty dict"),
        "typing.MutableMapping.popitem": Summary([KE], "popitem() on an empty dict"),
        "builtins.list.pop": Summary([IE], "pop from empty list"),
        "builtins.list.clear": Summary(NONE, "total"),
        "builtins.list.copy": Summary(NONE, "total"),
        "builtins.list.insert": Summary(NONE, "total"),
        "builtins.list.index": Summary([VE], "value not in list"),
        "builtins.list.remove": Summary([VE], "value not in list"),
        "builtins.list.sort": Summary(NONE, "homogeneous elements (A3)"),
        "builtins.set.remove": Summary([KE], "element not in set"),
        "builtins.set.update": Summary(NONE, "total"),
        "builtins.frozenset": Summary(NONE, "frozenset(iterable of hashables)"),
        "builtins.reversed": Summary(NONE, "total for sequences"),
        "builtins.abs": Summary(NONE, "total for numbers"),
        "builtins.any": Summary(NONE, "total"),
        "builtins.all": Summary(NONE, "total"),
        "builtins.sum": Summary(NONE, "numbers (A3)"),
        "builtins.range": Summary(NONE, "int arguments (A3)"),
        "builtins.hasattr": Summary(NONE, "total"),
        "builtins.id": Summary(NONE, "total"),
        "builtins.iter": Summary(NONE, "iterable argument (A3)"),
        "builtins.str.find": Summary(NONE, "total"),
        "builtins.str.index": Summary([VE], "substring not found"),
        "builtins.str.splitlines": Summary(NONE, "total"),
        "builtins.str.title": Summary(NONE, "total"),
        "builtins.str.zfill": Summary(NONE, "total"),
        "builtins.str.isnumeric": Summary(NONE, "total"),
        "builtins.str.removeprefix": Summary(NONE, "total"),
        "builtins.str.removesuffix": Summary(NONE, "total"),
        "builtins.bytes.rstrip": Summary(NONE, "total"),
        "builtins.bytes.strip": Summary(NONE, "total"),
        "builtins.bytes.split": Summary(NONE, "total for non-empty separator"),
        "builtins.bytes.startswith": Summary(NONE, "total"),
        "builtins.bytes.endswith": Summary(NONE, "total"),
        "time.gmtime": Summary(NONE, "no argument: current time"),
        "time.monotonic": Summary(NONE, "total"),
        "time.mktime": Summary([OFE, VE], "out-of-range struct_time"),
        "time.strftime": Summary(NONE, "valid format literal"),
        "datetime.datetime.now": Summary(NONE, "total"),
        "datetime.datetime.timestamp": Summary([OFE, OSE], "platform range"),
        "asyncio.tasks.wait_for": Summary(["builtins.TimeoutError"], "asyncio.wait_for raises TimeoutError; the awaited coroutine's own exceptions are attributed at its call site"),
        "asyncio.tasks.shield": Summary(NONE, "exceptions of the inner awaitable are attributed at its call site"),
        "asyncio.tasks.wait": Summary(NONE, "does not raise the tasks' exceptions"),
        "asyncio.events.get_running_loop": Summary(["builtins.RuntimeError"], "no running loop (never inside a coroutine)"),
        "asyncio.locks.Lock": Summary(NONE, "constructor"),
        "asyncio.locks.Event": Summary(NONE, "constructor"),
        "asyncio.queues.LifoQueue": Summary(NONE, "constructor"),
        "asyncio.queues.PriorityQueue": Summary(NONE, "constructor"),
        "asyncio.queues.Queue.get_nowait": Summary(["asyncio.queues.QueueEmpty"], "empty queue"),
        "asyncio.queues.Queue.put": Summary(NONE, "only cancellation"),
        "asyncio.queues.Queue.qsize": Summary(NONE, "total"),
        "asyncio.queues.Queue.empty": Summary(NONE, "total"),
        "os.path.exists": Summary(NONE, "total for str paths"),
        "os.path.join": Summary(NONE, "total for str paths"),
        "os.path.dirname": Summary(NONE, "total"),
        "os.path.basename": Summary(NONE, "total"),
        "_asyncio.get_running_loop": Summary(["builtins.RuntimeError"], "no running loop (never inside a coroutine)"),
        "_asyncio.get_event_loop": Summary(["builtins.RuntimeError"], "no current loop (never inside a coroutine)"),
        "_asyncio.current_task": Summary(["builtins.RuntimeError"], "no running loop (never inside a coroutine)"),
        "asyncio.tasks.current_task": Summary(["builtins.RuntimeError"], "no running loop (never inside a coroutine)"),
        "_asyncio.Task.cancelling": Summary(NONE, "total"),
        "_asyncio.Task.uncancel": Summary(NONE, "total"),
        "_asyncio.Task.cancelled": Summary(NONE, "total"),
        "_asyncio.Task.done": Summary(NONE, "total"),
        "asyncio.events.AbstractEventLoop.run_in_executor": Summary(_executor_raises, "the callable's exceptions surface at the await: OSError when a file-system function (a parameter of path type) is handed over; the repository never shuts an executor down"),
        "asyncio.base_events.BaseEventLoop.run_in_executor": Summary(_executor_raises, "as above"),
        "asyncio.transports.WriteTransport.get_write_buffer_size": Summary(NONE, "total"),
        "asyncio.transports.BaseTransport.is_closing": Summary(NONE, "total"),
        "asyncio.transports.BaseTransport.get_extra_info": Summary(NONE, "total"),
        "asyncio.streams.StreamWriter.is_closing": Summary(NONE, "total"),
        "builtins.map": Summary(NONE, "lazy: the mapped repository function is analysed at the call (EEA.external)"),
        "builtins.filter": Summary(NONE, "lazy: the predicate is analysed at the call (EEA.external)"),
        "_asyncio.Future.add_done_callback": Summary(NONE, "registers a callback"),
        "_asyncio.Task.add_done_callback": Summary(NONE, "registers a callback"),
        "builtins.set.discard": Summary(NONE, "total"),
        "builtins.set.add": Summary(NONE, "total for hashable elements"),
        "concurrent.futures._base.Executor.shutdown": Summary(NONE, "total"),
        "concurrent.futures.thread.ThreadPoolExecutor.shutdown": Summary(NONE, "total"),
        "copy.copy": Summary(NONE, "shallow copy of repo objects"),
        "copy.deepcopy": Summary(_deepcopy_raises, "deepcopy recurses in Python frames (about two per nesting level): data of unbounded depth (Any - e.g. a parsed JSON document, which json.loads accepts far deeper than the interpreter's recursion limit allows here) raises RecursionError; repository objects and flat typed containers do not"),
        "tempfile.mkstemp": Summary([OSE], "file creation"),
        "builtins.open": Summary([OSE], "file open"),
        "builtins.vars": Summary([TE], "vars(obj) without __dict__"),
        "builtins.getattr": Summary([AE], "getattr without default"),
        "builtins.setattr": Summary(NONE, "plain objects"),
        "asyncio.streams.StreamReader.readexactly": Summary([INCOMPLETE, OSE, VE], "IncompleteReadError at EOF, ValueError for a negative count, transport errors"),
        "asyncio.streams.StreamReader.readline": Summary([VE, OSE], "ValueError when the limit is exceeded"),
        "asyncio.streams.StreamReader.at_eof": Summary(NONE, "total"),
    }
)

# re-exported names of the same class
ALIASES = {
    "marshmallow.Schema": "marshmallow.schema.Schema",
    "marshmallow.ValidationError": "marshmallow.exceptions.ValidationError",
    "marshmallow.fields.Integer": "marshmallow.fields.Int",
    "marshmallow.fields.String": "marshmallow.fields.Str",
    "marshmallow.fields.Boolean": "marshmallow.fields.Bool",
    "asyncio.Queue": "asyncio.queues.Queue",
    "asyncio.StreamReader": "asyncio.streams.StreamReader",
    "asyncio.StreamWriter": "asyncio.streams.StreamWriter",
}

# BaseException-only classes are outside the escape analysis
BASE_ONLY = {
    "asyncio.exceptions.CancelledError",
    "builtins.KeyboardInterrupt",
    "builtins.SystemExit",
    "builtins.GeneratorExit",
    "concurrent.futures._base.CancelledError",
}

# fallback MROs for classes mypy did not export
FALLBACK_MRO = {
    "builtins.RecursionError": ["builtins.RecursionError", "builtins.RuntimeError", "builtins.Exception", "builtins.BaseException", "builtins.object"],
    "builtins.UnicodeDecodeError": ["builtins.UnicodeDecodeError", "builtins.UnicodeError", "builtins.ValueError", "builtins.Exception", "builtins.BaseException", "builtins.object"],
    "builtins.OverflowError": ["builtins.OverflowError", "builtins.ArithmeticError", "builtins.Exception", "builtins.BaseException", "builtins.object"],
    "decimal.InvalidOperation": ["decimal.InvalidOperation", "decimal.DecimalException", "builtins.ArithmeticError", "builtins.Exception", "builtins.BaseException", "builtins.object"],
    "builtins.StopIteration": ["builtins.StopIteration", "builtins.Exception", "builtins.BaseException", "builtins.object"],
    "builtins.TimeoutError": ["builtins.TimeoutError", "builtins.OSError", "builtins.Exception", "builtins.BaseException", "builtins.object"],
    "builtins.ZeroDivisionError": ["builtins.ZeroDivisionError", "builtins.ArithmeticError", "builtins.Exception", "builtins.BaseException", "builtins.object"],
    "asyncio.queues.QueueEmpty": ["asyncio.queues.QueueEmpty", "builtins.Exception", "builtins.BaseException", "builtins.object"],
    "builtins.AssertionError": ["builtins.AssertionError", "builtins.Exception", "builtins.BaseException", "builtins.object"],
    "awesomeversion.exceptions.AwesomeVersionCompareException": [
        "awesomeversion.exceptions.AwesomeVersionCompareException",
        "awesomeversion.exceptions.AwesomeVersionException",
        "builtins.Exception",
        "builtins.BaseException",
        "builtins.object",
    ],
    "json.decoder.JSONDecodeError": ["json.decoder.JSONDecodeError", "builtins.ValueError", "builtins.Exception", "builtins.BaseException", "builtins.object"],
    "serial.serialutil.SerialException": ["serial.serialutil.SerialException", "builtins.OSError", "builtins.Exception", "builtins.BaseException", "builtins.object"],
}


# Context managers whose __exit__/__aexit__ raises: exception classes raised at the end of the with block
# (i.e. *outside* any try statement that is nested inside the block).
CM_EXIT_RAISES = {
    "asyncio.timeouts.timeout": ["builtins.TimeoutError"],
    "asyncio.timeouts.timeout_at": ["builtins.TimeoutError"],
}
