"""E5 per-function statement CFG with exceptional edges, dominators, path queries.

Nodes are statements (or the test / iterator / with-item parts of compound
statements).  `finally` bodies are duplicated per continuation kind (normal,
exception, return, break, continue) so that every path is explicit.
"""

from __future__ import annotations

import ast
from dataclasses import dataclass, field
from typing import Callable, Iterable

from .model import AnalysisError, norm


@dataclass(eq=False)
class Node:
    id: int
    kind: str  # entry exit raise stmt test iter with-enter with-exit handler dispatch join
    ast: ast.AST | None = None
    note: str = ""
    succ: list = field(default_factory=list)  # (Node, label)
    pred: list = field(default_factory=list)

    @property
    def line(self) -> int:
        return getattr(self.ast, "lineno", 0) if self.ast is not None else 0

    def text(self) -> str:
        if self.ast is None:
            return self.kind
        if self.kind == "test":
            return f"if {norm(self.ast)[:80]}"
        if self.kind == "iter":
            return f"for … in {norm(self.ast.iter)[:60]}" if hasattr(self.ast, "iter") else "for"
        if self.kind == "handler":
            return f"except {norm(self.ast.type) if getattr(self.ast, 'type', None) is not None else ''}"
        if self.kind.startswith("with"):
            return f"{self.kind} {norm(self.ast)[:60]}"
        return norm(self.ast)[:100]

    def parts(self) -> list:
        """AST fragments evaluated *at this node* (a handler node does not own its body, a loop node not its body)."""
        a = self.ast
        if a is None or self.kind in ("join", "dispatch", "with-exit", "entry", "exit", "raise"):
            return []
        if self.kind == "handler":
            return [a.type] if getattr(a, "type", None) is not None else []
        if self.kind == "iter":
            return [a.target, a.iter]
        if isinstance(a, (ast.FunctionDef, ast.AsyncFunctionDef, ast.ClassDef)):
            return []
        return [a]

    def contains(self, target: ast.AST) -> bool:
        return any(y is target for p in self.parts() for y in ast.walk(p))

    def __repr__(self) -> str:
        return f"<{self.id}:{self.kind}:{self.line}:{self.text()[:40]}>"


def default_may_raise(node: ast.AST) -> bool:
    for n in ast.walk(node):
        if isinstance(n, (ast.Call, ast.Await, ast.Raise, ast.Assert, ast.Yield, ast.YieldFrom)):
            return True
        if isinstance(n, ast.Subscript) and isinstance(n.ctx, (ast.Load, ast.Del)):
            return True
        if isinstance(n, ast.BinOp) and isinstance(n.op, (ast.Div, ast.FloorDiv, ast.Mod)):
            return True
    return False


def has_await(node: ast.AST) -> bool:
    for n in ast.walk(node):
        if isinstance(n, (ast.FunctionDef, ast.AsyncFunctionDef, ast.Lambda)) and n is not node:
            continue
        if isinstance(n, (ast.Await, ast.AsyncFor, ast.AsyncWith, ast.Yield, ast.YieldFrom)):
            return True
    return False


class CFG:
    def __init__(self, func: ast.FunctionDef | ast.AsyncFunctionDef, may_raise: Callable[[ast.AST], bool] = default_may_raise) -> None:
        self.func = func
        self.may_raise = may_raise
        self.nodes: list[Node] = []
        self.entry = self._new("entry")
        self.exit = self._new("exit")
        self.raise_exit = self._new("raise")
        ctx = {"return": self.exit, "raise": self.raise_exit, "break": None, "continue": None}
        end = self._block(func.body, self.entry, "n", ctx)
        for e, lab in end:
            self._edge(e, self.exit, lab)
        self._dom = None
        self._pdom = None

    # ---- construction

    def _new(self, kind: str, node: ast.AST | None = None, note: str = "") -> Node:
        n = Node(len(self.nodes), kind, node, note)
        self.nodes.append(n)
        return n

    def _edge(self, a: Node, b: Node, label: str = "n") -> None:
        for s, l in a.succ:
            if s is b and l == label:
                return
        a.succ.append((b, label))
        b.pred.append((a, label))

    def _attach(self, preds, node: Node) -> None:
        for p, lab in preds:
            self._edge(p, node, lab)

    def _block(self, stmts, pred: Node | list, label: str, ctx) -> list:
        """Build stmts after `pred`; return list of (node, label) dangling normal exits."""
        cur = [(pred, label)] if isinstance(pred, Node) else list(pred)
        for s in stmts:
            if not cur:
                break
            cur = self._stmt(s, cur, ctx)
        return cur

    def _simple(self, s, preds, ctx, kind="stmt") -> Node:
        n = self._new(kind, s)
        self._attach(preds, n)
        if self.may_raise(s if kind != "iter" else s.iter if hasattr(s, "iter") else s):
            self._edge(n, ctx["raise"], "exc")
        return n

    def _stmt(self, s, preds, ctx) -> list:
        if isinstance(s, (ast.FunctionDef, ast.AsyncFunctionDef, ast.ClassDef)):
            n = self._new("stmt", s, "def")
            self._attach(preds, n)
            return [(n, "n")]
        if isinstance(s, ast.Return):
            n = self._simple(s, preds, ctx)
            self._edge(n, ctx["return"], "ret")
            return []
        if isinstance(s, ast.Raise):
            n = self._new("stmt", s)
            self._attach(preds, n)
            self._edge(n, ctx["raise"], "exc")
            return []
        if isinstance(s, ast.Break):
            n = self._new("stmt", s)
            self._attach(preds, n)
            if ctx["break"] is None:
                raise AnalysisError("break outside loop")
            self._edge(n, ctx["break"], "n")
            return []
        if isinstance(s, ast.Continue):
            n = self._new("stmt", s)
            self._attach(preds, n)
            self._edge(n, ctx["continue"], "n")
            return []
        if isinstance(s, ast.If):
            t = self._new("test", s.test)
            self._attach(preds, t)
            if self.may_raise(s.test):
                self._edge(t, ctx["raise"], "exc")
            out = self._block(s.body, t, "t", ctx)
            if s.orelse:
                out += self._block(s.orelse, t, "f", ctx)
            else:
                out.append((t, "f"))
            return out
        if isinstance(s, ast.While):
            t = self._new("test", s.test)
            self._attach(preds, t)
            if self.may_raise(s.test):
                self._edge(t, ctx["raise"], "exc")
            after = self._new("join", s, "while-exit")
            c2 = dict(ctx)
            c2["break"] = after
            c2["continue"] = t
            body_out = self._block(s.body, t, "t", c2)
            for e, lab in body_out:
                self._edge(e, t, lab)
            infinite = isinstance(s.test, ast.Constant) and bool(s.test.value)
            if not infinite:
                if s.orelse:
                    for e, lab in self._block(s.orelse, t, "f", ctx):
                        self._edge(e, after, lab)
                else:
                    self._edge(t, after, "f")
            if not after.pred:
                return []
            return [(after, "n")]
        if isinstance(s, (ast.For, ast.AsyncFor)):
            it = self._new("iter", s)
            self._attach(preds, it)
            if self.may_raise(s.iter) or isinstance(s, ast.AsyncFor):
                self._edge(it, ctx["raise"], "exc")
            after = self._new("join", s, "for-exit")
            c2 = dict(ctx)
            c2["break"] = after
            c2["continue"] = it
            body_out = self._block(s.body, it, "t", c2)
            for e, lab in body_out:
                self._edge(e, it, lab)
            if s.orelse:
                for e, lab in self._block(s.orelse, it, "f", ctx):
                    self._edge(e, after, lab)
            else:
                self._edge(it, after, "f")
            return [(after, "n")]
        if isinstance(s, (ast.With, ast.AsyncWith)):
            cur = preds
            suppress = False
            for item in s.items:
                w = self._new("with-enter", item.context_expr)
                self._attach(cur, w)
                if self.may_raise(item.context_expr) or isinstance(s, ast.AsyncWith):
                    self._edge(w, ctx["raise"], "exc")
                cur = [(w, "n")]
                ce = item.context_expr
                if isinstance(ce, ast.Call) and norm(ce.func).endswith("suppress"):
                    suppress = True
            after = self._new("with-exit", s)
            c2 = dict(ctx)
            if suppress:
                d = self._new("dispatch", s, "suppress")
                self._edge(d, after, "caught")
                self._edge(d, ctx["raise"], "exc")
                c2["raise"] = d
            out = self._block(s.body, cur, "n", c2)
            for e, lab in out:
                self._edge(e, after, lab)
            if isinstance(s, ast.AsyncWith):
                self._edge(after, ctx["raise"], "exc")
            if not after.pred:
                return []
            return [(after, "n")]
        if isinstance(s, ast.Try):
            return self._try(s, preds, ctx)
        if isinstance(s, ast.Match):
            raise AnalysisError("match statements are not modelled by the CFG")
        # simple statements
        n = self._simple(s, preds, ctx)
        return [(n, "n")]

    def _try(self, s: ast.Try, preds, ctx) -> list:
        final = s.finalbody
        fin_cache: dict = {}

        def through_finally(kind: str, target: Node | None) -> Node | None:
            """Entry node of a copy of the finally body that continues to `target`."""
            if not final:
                return target
            if target is None:
                return None
            key = (kind, target.id)
            if key in fin_cache:
                return fin_cache[key]
            entry = self._new("join", s, f"finally[{kind}]")
            fin_cache[key] = entry
            # inside finally: exceptions go to the *outer* raise; return/break/continue to the outer ones
            outs = self._block(final, entry, "n", ctx)
            if outs:
                tail = self._new("join", s, f"finally-end[{kind}]")
                for e, lab in outs:
                    self._edge(e, tail, lab)
                self._edge(tail, target, "exc" if kind == "raise" else "ret" if kind == "return" else "n")
            return entry

        outer = dict(ctx)
        inner = dict(ctx)
        inner["return"] = through_finally("return", ctx["return"])
        inner["break"] = through_finally("break", ctx["break"]) if ctx["break"] is not None else None
        inner["continue"] = through_finally("continue", ctx["continue"]) if ctx["continue"] is not None else None
        raise_via_finally = through_finally("raise", ctx["raise"])
        body_ctx = dict(inner)
        handler_ctx = dict(inner)
        handler_ctx["raise"] = raise_via_finally
        if s.handlers:
            d = self._new("dispatch", s, "except")
            body_ctx["raise"] = d
        else:
            d = None
            body_ctx["raise"] = raise_via_finally
        outs = self._block_multi(s.body, preds, body_ctx)
        if s.orelse:
            outs = self._block_multi(s.orelse, outs, handler_ctx) if outs else []
        if d is not None:
            catches_all = False
            for h in s.handlers:
                hn = self._new("handler", h)
                self._edge(d, hn, "caught")
                houts = self._block(h.body, hn, "n", handler_ctx)
                outs += houts
                if h.type is None or norm(h.type) in ("BaseException",):
                    catches_all = True
            if not catches_all:
                self._edge(d, raise_via_finally, "exc")
        if final:
            if not outs:
                return []
            fin_entry = self._new("join", s, "finally[normal]")
            for e, lab in outs:
                self._edge(e, fin_entry, lab)
            return self._block(final, fin_entry, "n", ctx)
        return outs

    def _block_multi(self, stmts, preds, ctx) -> list:
        cur = list(preds)
        for st in stmts:
            if not cur:
                break
            cur = self._stmt(st, cur, ctx)
        return cur

    # ---- graph algorithms

    def reachable(self) -> set:
        r = getattr(self, "_reach", None)
        if r is None:
            r = self._reach = self._reachable()
        return r

    def _reachable(self) -> set:
        seen = {self.entry}
        stack = [self.entry]
        while stack:
            n = stack.pop()
            for s, _ in n.succ:
                if s not in seen:
                    seen.add(s)
                    stack.append(s)
        return seen

    def dominators(self) -> dict:
        if self._dom is None:
            self._dom = self._compute_dom(self.entry, lambda n: [p for p, _ in n.pred], lambda n: [s for s, _ in n.succ])
        return self._dom

    def _compute_dom(self, root: Node, preds, succs) -> dict:
        # iterative set-based algorithm (graphs are tiny)
        reach = set()
        stack = [root]
        while stack:
            n = stack.pop()
            if n in reach:
                continue
            reach.add(n)
            stack.extend(succs(n))
        dom = {n: set(reach) for n in reach}
        dom[root] = {root}
        changed = True
        while changed:
            changed = False
            for n in reach:
                if n is root:
                    continue
                ps = [p for p in preds(n) if p in reach]
                new = set.intersection(*(dom[p] for p in ps)) if ps else set()
                new = new | {n}
                if new != dom[n]:
                    dom[n] = new
                    changed = True
        return dom

    def dominates(self, a: Node, b: Node) -> bool:
        if b not in self.reachable():
            return True  # an unreachable copy (e.g. the return-copy of a finally whose try never returns)
        d = self.dominators()
        return b in d and a in d[b]

    # ---- queries on AST-level statements (all CFG copies of the statement)

    def nodes_of(self, stmt: ast.AST) -> list[Node]:
        return [n for n in self.nodes if n.ast is stmt and n.kind not in ("join", "dispatch", "with-exit")]

    def nodes_where(self, pred: Callable[[Node], bool]) -> list[Node]:
        r = self.reachable()
        return [n for n in self.nodes if n in r and n.ast is not None and n.kind not in ("join", "dispatch") and pred(n)]

    def reach_avoiding(self, start: Iterable[Node], goal: Callable[[Node], bool], avoid: Callable[[Node], bool], labels_skip: tuple = (), from_succ: bool = True, first_labels_skip: tuple = (), truth: Callable[[Node], bool | None] | None = None) -> list[Node] | None:
        """A path from (successors of) start nodes to a node satisfying goal that avoids `avoid` nodes; or None.

        truth: optional three-valued oracle for test nodes - when it knows the outcome of a test only the matching
        branch ('t' / 'f' edge) is followed (paths restricted to a given assumption about the inputs)."""
        stack: list[tuple[Node, tuple]] = []
        seen = set()
        for s in start:
            if from_succ:
                for nx, lab in s.succ:
                    if lab in labels_skip or lab in first_labels_skip:
                        continue
                    stack.append((nx, (s, nx)))
            else:
                stack.append((s, (s,)))
        while stack:
            n, path = stack.pop()
            if n in seen:
                continue
            seen.add(n)
            if goal(n):
                return list(path)
            if avoid(n):
                continue
            tv = truth(n) if truth is not None and n.kind == "test" else None
            for nx, lab in n.succ:
                if lab in labels_skip:
                    continue
                if tv is not None and lab in ("t", "f") and lab != ("t" if tv else "f"):
                    continue
                if nx not in seen:
                    stack.append((nx, path + (nx,)))
        return None

    def polarity(self, test_node: Node, targets) -> bool | None:
        """True when only the true-branch of the test leads to the target nodes, False when only the false-branch."""
        targets = set(targets)
        reach = {}
        for lab in ("t", "f"):
            starts = [s_ for s_, l_ in test_node.succ if l_ == lab]
            reach[lab] = any(s_ in targets for s_ in starts) or self.reach_avoiding(starts, lambda x: x in targets, lambda x: x is test_node, from_succ=False) is not None
        if reach["t"] and not reach["f"]:
            return True
        if reach["f"] and not reach["t"]:
            return False
        return None

    def path_text(self, path: list[Node]) -> list[str]:
        return [f"{n.line}:{n.text()}" if n.ast is not None else n.kind for n in path]
