"""E7 symbolic provenance: canonical text of an expression with
- the handler's incoming message parameter renamed to `In`,
- single-assignment locals substituted by their definitions,
- foldable constants / enum members replaced by their values,
- `<C(args)>.attr` projected onto the constructor argument stored in attr.
"""

from __future__ import annotations

import ast
import copy

from .interp import Interp
from .model import ClassInfo, EnumVal, FuncInfo, Unfoldable, norm


def message_param(f: FuncInfo) -> str | None:
    """Name of the parameter annotated `Message` (the incoming/outgoing message)."""
    for p in f.params:
        ann = f.param_annotation(p)
        if ann is not None and norm(ann) in ("Message", "'Message'"):
            return p
    return None


class Canon(ast.NodeTransformer):
    def __init__(self, I: Interp, f: FuncInfo, msg: str | None = None, depth: int = 0, subst_params: dict | None = None) -> None:
        self.I = I
        self.f = f
        self.msg = msg if msg is not None else message_param(f)
        self.depth = depth
        self.subst_params = subst_params or {}
        self._active: set = set()

    def canon(self, e: ast.AST) -> str:
        t = self.visit(copy.deepcopy(e))
        return norm(t)

    def tree(self, e: ast.AST) -> ast.AST:
        return self.visit(copy.deepcopy(e))

    def visit_Await(self, node: ast.Await):
        return self.visit(node.value)

    def visit_Name(self, node: ast.Name):
        if not isinstance(node.ctx, ast.Load):
            return node
        if node.id == self.msg:
            return ast.Name(id="In", ctx=ast.Load())
        if node.id in self.subst_params:
            return copy.deepcopy(self.subst_params[node.id])
        f = self.f
        if node.id in f.params:
            return node
        la = self.I.local_assigns(f).get(node.id)
        if la is not None:
            if len(la) == 1 and isinstance(la[0], ast.expr) and node.id not in self._active and self.depth < 12:
                self._active.add(node.id)
                try:
                    sub = Canon(self.I, f, self.msg, self.depth + 1, self.subst_params)
                    sub._active = self._active
                    return sub.visit(copy.deepcopy(la[0]))
                finally:
                    self._active.discard(node.id)
            return node
        # module-level constant / enum
        try:
            v = self.I.folder.fold(f.module, node)
        except Unfoldable:
            return node
        return self._const(v, node)

    def _const(self, v, node):
        if isinstance(v, EnumVal):
            return ast.Constant(value=v.value)
        if isinstance(v, (int, str, bool)) or v is None:
            return ast.Constant(value=v)
        return node

    def visit_Attribute(self, node: ast.Attribute):
        # foldable dotted constant (Enum.member, module.CONST)
        if isinstance(node.ctx, ast.Load):
            try:
                v = self.I.folder.fold(self.f.module, node)
                if isinstance(v, EnumVal) or isinstance(v, (int, str, bool)):
                    return self._const(v, node)
            except Unfoldable:
                pass
        node.value = self.visit(node.value)
        # projection of a constructor call onto a stored parameter
        if isinstance(node.value, ast.Call):
            c = self._repo_class(node.value.func)
            if c is not None:
                stored = self.I.stored_params(c)
                inv = {attr: prm for prm, attr in stored.items()}
                if node.attr in inv:
                    prm = inv[node.attr]
                    init = c.find_method("__init__")
                    pos = init.positional_params[1:]
                    for kw in node.value.keywords:
                        if kw.arg == prm:
                            return kw.value
                    if prm in pos and pos.index(prm) < len(node.value.args):
                        return node.value.args[pos.index(prm)]
        return node

    def _repo_class(self, fn: ast.expr) -> ClassInfo | None:
        d = self.I.prog.resolve_expr(self.f.module, fn) if isinstance(fn, (ast.Name, ast.Attribute)) else None
        if d is not None and d.kind == "class":
            return d.obj
        return None


def canon(I: Interp, f: FuncInfo, e: ast.AST, msg: str | None = None) -> str:
    return Canon(I, f, msg).canon(e)


def call_args(call: ast.Call, params: list[str], defaults: dict[str, str] | None = None) -> dict[str, ast.expr]:
    """Map a call's arguments onto parameter names."""
    out: dict[str, ast.expr] = {}
    for p, a in zip(params, call.args):
        out[p] = a
    for kw in call.keywords:
        if kw.arg:
            out[kw.arg] = kw.value
    return out
