"""E7 symbolic provenance: canonical text of an expression with
- the handler's incoming message parameter renamed to `In`,
- single-assignment locals substituted by their definitions,
- foldable constants / enum members replaced by their values,
- `<C(args)>.attr` projected onto the constructor argument stored in attr.
"""

from __future__ import annotations

import ast
import copy

from .interp import Interp
from .model import ClassInfo, EnumVal, FuncInfo, Unfoldable, norm


def message_param(f: FuncInfo) -> str | None:
    """Name of the parameter annotated `Message` (the incoming/outgoing message)."""
    for p in f.params:
        ann = f.param_annotation(p)
        if ann is not None and norm(ann) in ("Message", "'Message'"):
            return p
    return None


_FRESH = (ast.List, ast.ListComp, ast.Dict, ast.DictComp, ast.Set, ast.SetComp, ast.Tuple, ast.GeneratorExp, ast.Call, ast.JoinedStr, ast.BinOp)


class Canon(ast.NodeTransformer):
    def __init__(self, I: Interp, f: FuncInfo, msg: str | None = None, depth: int = 0, subst_params: dict | None = None) -> None:
        self.I = I
        self.f = f
        self.msg = msg if msg is not None else message_param(f)
        self.depth = depth
        self.subst_params = subst_params or {}
        self._active: set = set()
        self._shadow: frozenset = frozenset()

    _COMPS = (ast.ListComp, ast.SetComp, ast.DictComp, ast.GeneratorExp)

    def _enclosing_bound(self, e: ast.AST) -> frozenset:
        """Names that an enclosing comprehension / lambda binds at the position of `e` (they shadow the function's
        parameters and locals of the same name)."""
        parents = self.I.prog.parents
        bound: set[str] = set()
        cur, prev = parents.get(e), e
        steps = 0
        while cur is not None and not isinstance(cur, (ast.FunctionDef, ast.AsyncFunctionDef, ast.ClassDef, ast.Module)) and steps < 200:
            steps += 1
            if isinstance(cur, ast.Lambda) and prev is cur.body:
                a = cur.args
                bound |= {x.arg for x in a.posonlyargs + a.args + a.kwonlyargs} | ({a.vararg.arg} if a.vararg else set()) | ({a.kwarg.arg} if a.kwarg else set())
            if isinstance(cur, ast.comprehension):
                comp = parents.get(cur)
                if isinstance(comp, self._COMPS):
                    i = comp.generators.index(cur)
                    # the iterable of generator i sees the targets of generators 0..i-1; its conditions also its own
                    upto = i if prev is cur.iter else i + 1
                    for g in comp.generators[:upto]:
                        bound |= {x.id for x in ast.walk(g.target) if isinstance(x, ast.Name)}
                    prev, cur = comp, parents.get(comp)
                    continue
            if isinstance(cur, self._COMPS) and prev not in cur.generators:
                for g in cur.generators:
                    bound |= {x.id for x in ast.walk(g.target) if isinstance(x, ast.Name)}
            prev, cur = cur, parents.get(cur)
        return frozenset(bound)

    def canon(self, e: ast.AST) -> str:
        return norm(self.tree(e))

    def tree(self, e: ast.AST) -> ast.AST:
        outer = getattr(self, "_shadow", frozenset())
        self._shadow = outer | self._enclosing_bound(e)
        try:
            return self.visit(copy.deepcopy(e))
        finally:
            self._shadow = outer

    def _visit_comp(self, node):
        outer = getattr(self, "_shadow", frozenset())
        try:
            for i, g in enumerate(node.generators):
                g.iter = self.visit(g.iter)
                self._shadow = self._shadow | {x.id for x in ast.walk(g.target) if isinstance(x, ast.Name)}
                g.ifs = [self.visit(x) for x in g.ifs]
            if isinstance(node, ast.DictComp):
                node.key = self.visit(node.key)
                node.value = self.visit(node.value)
            else:
                node.elt = self.visit(node.elt)
            return node
        finally:
            self._shadow = outer

    visit_ListComp = visit_SetComp = visit_DictComp = visit_GeneratorExp = _visit_comp

    def visit_Lambda(self, node: ast.Lambda):
        outer = getattr(self, "_shadow", frozenset())
        a = node.args
        self._shadow = outer | {x.arg for x in a.posonlyargs + a.args + a.kwonlyargs} | ({a.vararg.arg} if a.vararg else set()) | ({a.kwarg.arg} if a.kwarg else set())
        try:
            node.body = self.visit(node.body)
            return node
        finally:
            self._shadow = outer

    def visit_Await(self, node: ast.Await):
        return self.visit(node.value)

    def visit_NamedExpr(self, node: ast.NamedExpr):
        return self.visit(node.value)  # `(x := e)` has the value of e

    def visit_Subscript(self, node: ast.Subscript):
        # TABLE[bool(x)] over a constant {True: a, False: b}  ==  a if x else b
        if isinstance(node.value, (ast.Name, ast.Attribute)) and isinstance(node.slice, ast.Call) and isinstance(node.slice.func, ast.Name) and node.slice.func.id == "bool" and len(node.slice.args) == 1 and not node.slice.keywords:
            try:
                tab = self.I.folder.fold(self.f.module, node.value)
            except Unfoldable:
                tab = None
            if isinstance(tab, dict) and set(tab) == {True, False} and all(isinstance(v, (str, int)) for v in tab.values()):
                return ast.IfExp(test=self.visit(node.slice.args[0]), body=ast.Constant(value=tab[True]), orelse=ast.Constant(value=tab[False]))
        node = self.generic_visit(node)
        # element of a literal tuple / list (a helper that returns `(a, b)` unpacked by its caller)
        if isinstance(node.value, (ast.Tuple, ast.List)) and isinstance(node.slice, ast.Constant) and isinstance(node.slice.value, int) and not any(isinstance(x, ast.Starred) for x in node.value.elts):
            i = node.slice.value
            if -len(node.value.elts) <= i < len(node.value.elts):
                return node.value.elts[i]
        return node

    def visit_Name(self, node: ast.Name):
        if not isinstance(node.ctx, ast.Load):
            return node
        if node.id in getattr(self, "_shadow", ()):
            return node  # bound by an enclosing comprehension / lambda: not the function's variable of that name
        if node.id == self.msg:
            return ast.Name(id="In", ctx=ast.Load())
        if node.id in self.subst_params:
            return copy.deepcopy(self.subst_params[node.id])
        f = self.f
        if node.id in f.params:
            return node
        la = self.I.local_assigns(f).get(node.id)
        if la is not None:
            if len(la) == 1 and isinstance(la[0], _FRESH) and node.id in self.I.mutated_locals(f):
                return node  # a container built here and then modified in place: its display is not its value
            if len(la) == 1 and isinstance(la[0], ast.expr) and node.id not in self._active and self.depth < 12:
                self._active.add(node.id)
                try:
                    sub = Canon(self.I, f, self.msg, self.depth + 1, self.subst_params)
                    sub._active = self._active
                    return sub.visit(copy.deepcopy(la[0]))
                finally:
                    self._active.discard(node.id)
            ta = self.I.tuple_assigns(f).get(node.id)
            if ta is not None and len(la) == 1 and la[0] is None and len(ta) == 1 and node.id not in self._active and self.depth < 12:
                # `a, b = <expr>`: a is element 0 of <expr>
                val, idx = ta[0]
                self._active.add(node.id)
                try:
                    sub = Canon(self.I, f, self.msg, self.depth + 1, self.subst_params)
                    sub._active = self._active
                    return sub.visit(ast.Subscript(value=copy.deepcopy(val), slice=ast.Constant(value=idx), ctx=ast.Load()))
                finally:
                    self._active.discard(node.id)
            return node
        # module-level constant / enum
        try:
            v = self.I.folder.fold(f.module, node)
        except Unfoldable:
            return node
        return self._const(v, node)

    def _const(self, v, node):
        if isinstance(v, EnumVal):
            return ast.Constant(value=v.value)
        if isinstance(v, (int, str, bool)) or v is None:
            return ast.Constant(value=v)
        return node

    def visit_Attribute(self, node: ast.Attribute):
        # foldable dotted constant (Enum.member, module.CONST)
        if isinstance(node.ctx, ast.Load):
            try:
                v = self.I.folder.fold(self.f.module, node)
                if isinstance(v, EnumVal) or isinstance(v, (int, str, bool)):
                    return self._const(v, node)
            except Unfoldable:
                pass
        node.value = self.visit(node.value)
        # field of a NamedTuple that was written out as the tuple of its fields
        nt = getattr(node.value, "_nt_fields", None)
        if nt is not None and isinstance(node.value, ast.Tuple) and node.attr in nt:
            return node.value.elts[nt.index(node.attr)]
        # projection of a constructor call onto a stored parameter
        if isinstance(node.value, ast.Call):
            c = self._repo_class(node.value.func, getattr(node.value, "_mod", None))
            if c is not None:
                flds = self.I.record_fields(c)
                if flds is not None and node.attr in flds:
                    for kw in node.value.keywords:
                        if kw.arg == node.attr:
                            return kw.value
                    i = flds.index(node.attr)
                    if i < len(node.value.args) and not any(isinstance(a, ast.Starred) for a in node.value.args):
                        return node.value.args[i]
                    dflt = self.I.record_default(c, node.attr)
                    if dflt is not None and not any(kw.arg is None for kw in node.value.keywords):
                        return self.visit(copy.deepcopy(dflt))
                    return node
                stored = self.I.stored_params(c)
                inv = {attr: prm for prm, attr in stored.items()}
                if node.attr in inv:
                    prm = inv[node.attr]
                    init = c.find_method("__init__")
                    pos = init.positional_params[1:]
                    for kw in node.value.keywords:
                        if kw.arg == prm:
                            return kw.value
                    if prm in pos and pos.index(prm) < len(node.value.args):
                        return node.value.args[pos.index(prm)]
        return node

    def visit_Call(self, node: ast.Call):
        # a NamedTuple of the package built in place is the tuple of its fields (equal to and hashing like the plain
        # tuple: a typed spelling of a dict key)
        if isinstance(node.func, (ast.Name, ast.Attribute)) and not any(isinstance(a, ast.Starred) for a in node.args) and all(kw.arg for kw in node.keywords):
            c = self._repo_class(node.func, getattr(node, "_mod", None))
            if c is not None and (any(isinstance(b, str) and b.split(".")[-1] == "NamedTuple" for b in c.bases) or any(norm(b).split(".")[-1] == "NamedTuple" for b in c.node.bases)):
                flds = self.I.record_fields(c)
                if flds is not None and len(node.args) <= len(flds):
                    vals = dict(zip(flds, node.args))
                    vals.update({kw.arg: kw.value for kw in node.keywords})
                    for fl in flds:
                        if fl not in vals:
                            d_ = self.I.record_default(c, fl)
                            if d_ is not None:
                                vals[fl] = d_
                    if all(fl in vals for fl in flds) and set(vals) == set(flds):
                        tup = ast.copy_location(ast.Tuple(elts=[copy.deepcopy(vals[fl]) for fl in flds], ctx=ast.Load()), node)
                        tup = self.visit(tup)
                        tup._nt_fields = tuple(flds)  # type: ignore[attr-defined]  field names, for `.name` projection
                        return tup
        h = self._getter(node)
        if h is not None and self.depth < 8:
            f, ret = h
            params = [p for p in f.positional_params if p not in ("self", "cls")]
            sub = dict(self.subst_params)
            ok = len(node.args) <= len(params) and not any(isinstance(a, ast.Starred) for a in node.args)
            recv = node.func.value if isinstance(node.func, ast.Attribute) else None
            if ok and f.cls is not None and not f.is_staticmethod() and f.positional_params and recv is not None and not (isinstance(recv, ast.Name) and recv.id in ("self", "cls")):
                # method of another object (`gateway.free_ids()`): its `self` is the receiver expression
                sub[f.positional_params[0]] = self.visit(copy.deepcopy(recv))
            if ok:
                for p, a in zip(params, node.args):
                    sub[p] = self.visit(copy.deepcopy(a))
                allp = [p for p in f.params if p not in ("self", "cls")]  # keyword-only parameters included
                for kw in node.keywords:
                    if kw.arg is None or kw.arg not in allp:
                        ok = False
                        break
                    sub[kw.arg] = self.visit(copy.deepcopy(kw.value))
                for p in allp:
                    if p not in sub and f.param_default(p) is not None:
                        sub[p] = copy.deepcopy(f.param_default(p))
                params = allp
            if ok and all(p in sub for p in params):
                inner = Canon(self.I, f, "", self.depth + 1, sub)
                res = inner.visit(copy.deepcopy(ret))
                for n in ast.walk(res):  # names in the inlined expression belong to the helper's module
                    if isinstance(n, ast.Call) and not hasattr(n, "_mod"):
                        n._mod = f.module  # type: ignore[attr-defined]
                return res
        return self.generic_visit(node)

    def _getter(self, call: ast.Call):
        """(function, returned expression) when the call is to a repository 'getter': a function whose body is
        only guards that raise and one final `return <expr>` - its result is that expression over the arguments."""
        fn = call.func
        f = None
        if isinstance(fn, ast.Attribute) and isinstance(fn.value, ast.Name) and fn.value.id in ("cls", "self") and self.f.cls is not None:
            f = self.f.cls.find_method(fn.attr)
        elif isinstance(fn, ast.Name):
            d = self.I.prog.resolve_expr(self.f.module, fn)
            if d is not None and d.kind == "func":
                f = d.obj
        elif isinstance(fn, ast.Attribute) and hasattr(call, "lineno"):
            # a method of another typed object (`gateway.free_ids()`): resolved through the typed call fact
            try:
                fact = self.I.prog.call_fact(getattr(call, "_mod", None) or self.f.module, call)
            except Exception:  # noqa: BLE001
                fact = None
            if fact and fact[0] and "|" not in fact[0] and fact[0].startswith("aiomysensors."):
                d = self.I.prog.lookup_fullname(fact[0])
                if d is not None and d.kind == "func" and d.obj.cls is not None and not any(d.obj.name in k.methods for k in self.I.prog.subclasses(d.obj.cls)):
                    f = d.obj
        if f is None or isinstance(f.node, ast.AsyncFunctionDef) or f is self.f:
            return None
        body = list(f.node.body)
        if body and isinstance(body[0], ast.Expr) and isinstance(body[0].value, ast.Constant):
            body = body[1:]
        if not body or not isinstance(body[-1], ast.Return) or body[-1].value is None:
            return None
        private = f.name.startswith("_") and not f.name.startswith("__")
        for st in body[:-1]:
            strict = isinstance(st, ast.If) and not st.orelse and len(st.body) == 1 and isinstance(st.body[0], ast.Raise)
            if not (strict or (private and _value_neutral(st))):
                return None
        return f, body[-1].value

    def _repo_class(self, fn: ast.expr, mod=None) -> ClassInfo | None:
        d = self.I.prog.resolve_expr(mod or self.f.module, fn) if isinstance(fn, (ast.Name, ast.Attribute)) else None
        if d is not None and d.kind == "class":
            return d.obj
        return None


def _value_neutral(st: ast.stmt) -> bool:
    """A statement that can only bind locals or raise: it does not change what the final `return <expr>` of a getter
    evaluates to (locals are substituted by Canon itself)."""
    if isinstance(st, ast.Raise) or isinstance(st, ast.Pass):
        return True
    if isinstance(st, ast.Assign):
        return all(isinstance(t, ast.Name) or (isinstance(t, ast.Tuple) and all(isinstance(x, ast.Name) for x in t.elts)) for t in st.targets)
    if isinstance(st, ast.AnnAssign):
        return isinstance(st.target, ast.Name)
    if isinstance(st, ast.If):
        return all(_value_neutral(x) for x in st.body + st.orelse)
    if isinstance(st, ast.Try):
        return all(_value_neutral(x) for x in st.body + st.orelse + st.finalbody) and all(all(_value_neutral(x) for x in h.body) for h in st.handlers)
    if isinstance(st, ast.Expr) and isinstance(st.value, ast.Constant):
        return True
    return False


def canon(I: Interp, f: FuncInfo, e: ast.AST, msg: str | None = None) -> str:
    return Canon(I, f, msg).canon(e)


def call_args(call: ast.Call, params: list[str], defaults: dict[str, str] | None = None) -> dict[str, ast.expr]:
    """Map a call's arguments onto parameter names."""
    out: dict[str, ast.expr] = {}
    for p, a in zip(params, call.args):
        out[p] = a
    for kw in call.keywords:
        if kw.arg:
            out[kw.arg] = kw.value
    return out


def truth3(cn: Canon, e: ast.expr, assume: dict[str, bool]) -> bool | None:
    """Three-valued truth of a test under assumptions about canonical atoms (`In.child_id == 255` -> True ...).

    Understands ==/!= with either operand order, `not`, and/or, and a bare atom."""
    if isinstance(e, ast.UnaryOp) and isinstance(e.op, ast.Not):
        v = truth3(cn, e.operand, assume)
        return None if v is None else not v
    if isinstance(e, ast.BoolOp):
        vals = [truth3(cn, v, assume) for v in e.values]
        if isinstance(e.op, ast.And):
            if any(v is False for v in vals):
                return False
            return True if all(v is True for v in vals) else None
        if any(v is True for v in vals):
            return True
        return False if all(v is False for v in vals) else None
    if isinstance(e, ast.Compare) and len(e.ops) == 1 and isinstance(e.ops[0], (ast.Eq, ast.NotEq, ast.Is, ast.IsNot)):
        a, b = cn.canon(e.left), cn.canon(e.comparators[0])
        neg = isinstance(e.ops[0], (ast.NotEq, ast.IsNot))
        if isinstance(e.ops[0], (ast.Is, ast.IsNot)) and not ({a, b} & {"None", "True", "False"}):
            return None  # identity of non-singletons is not equality: undecided
        for k in (f"{a} == {b}", f"{b} == {a}"):
            if k in assume:
                return assume[k] != neg
        return None
    t = cn.canon(e)
    return assume.get(t)
