"""Parse-time flattening of private collaborator objects ("extract class" undone for the analysis).

A private class C of a module that is instantiated exactly once, as `self.<a> = C(args)` in the `__init__` of
another class O of the same module, and whose instance is only ever reached as `<x>.<a>.<member>`, adds nothing but
a level of naming: its fields are fields of O, its methods are private methods of O.  The rules are written against
O's state and private helpers, so the module is analysed in this flattened form:

    self.<a> = C(args)          ->  the body of C.__init__ (self.f -> self.<a>_f, locals renamed)
    C.m(self, ...)              ->  O.<a>__m(self, ...)          (self.f -> self.<a>_f, self.m2 -> self.<a>__m2)
    <x>.<a>.f / <x>.<a>.m(...)  ->  <x>.<a>_f / <x>.<a>__m(...)

Nodes keep their source positions, so the typed facts of the type checker still apply to them.  A class that does
not have exactly this shape (bases, other instantiations, the instance handed to someone, dunder methods, ...) is
left alone; the rules then see the collaborator as it is and say so if they cannot follow it.
"""

from __future__ import annotations

import ast
import copy


def _is_private(name: str) -> bool:
    return name.startswith("_") and not name.startswith("__")


def _strip_doc(body: list) -> list:
    return body[1:] if body and isinstance(body[0], ast.Expr) and isinstance(body[0].value, ast.Constant) and isinstance(body[0].value.value, str) else list(body)


def _is_dataclass_deco(d: ast.expr) -> bool:
    t = d.func if isinstance(d, ast.Call) else d
    return (isinstance(t, ast.Name) and t.id == "dataclass") or (isinstance(t, ast.Attribute) and t.attr == "dataclass")


def class_shape_ok(cls: ast.ClassDef) -> bool:
    return not cls.bases and not cls.keywords and all(_is_dataclass_deco(d) for d in cls.decorator_list)


def _dataclass_init(cls: ast.ClassDef, post):
    """The __init__ a dataclass generates, as far as plain fields / field(default=, default_factory=, init=) go,
    followed by the statements of __post_init__."""
    args: list = [ast.arg(arg="self")]
    defaults: list = []
    body: list = []
    for st in cls.body:
        if not (isinstance(st, ast.AnnAssign) and isinstance(st.target, ast.Name)):
            continue
        if "ClassVar" in ast.unparse(st.annotation):
            continue
        nm, v = st.target.id, st.value
        init, dflt, fac = True, None, None
        if isinstance(v, ast.Call) and ((isinstance(v.func, ast.Name) and v.func.id == "field") or (isinstance(v.func, ast.Attribute) and v.func.attr == "field")):
            for kw in v.keywords:
                if kw.arg == "init":
                    if not isinstance(kw.value, ast.Constant):
                        return None
                    init = bool(kw.value.value)
                elif kw.arg == "default":
                    dflt = kw.value
                elif kw.arg == "default_factory":
                    fac = kw.value
        elif v is not None:
            dflt = v
        if fac is not None:
            val: ast.expr = fac.body if isinstance(fac, ast.Lambda) and not fac.args.args else ast.Call(func=fac, args=[], keywords=[])
        else:
            val = dflt
        if init:
            if val is not None and not isinstance(val, ast.Constant) and fac is None:
                return None  # a non-constant default of an init parameter: evaluated once at class creation
            args.append(ast.arg(arg=nm))
            if val is not None:
                defaults.append(val)
            elif defaults:
                return None
            rhs: ast.expr = ast.Name(id=nm, ctx=ast.Load())
        else:
            if val is None:
                continue  # set by __post_init__
            rhs = val
        a = ast.Assign(targets=[ast.Attribute(value=ast.Name(id="self", ctx=ast.Load()), attr=nm, ctx=ast.Store())], value=rhs)
        body.append(ast.copy_location(a, st))
    if post is not None:
        if len(post.args.args) != 1:
            return None
        sn = post.args.args[0].arg

        class _R(ast.NodeTransformer):
            def visit_Name(self, node):
                return ast.copy_location(ast.Name(id="self", ctx=node.ctx), node) if node.id == sn else node

        body += [_R().visit(copy.deepcopy(b)) for b in _strip_doc(post.body)]
    fd = ast.FunctionDef(name="__init__", args=ast.arguments(posonlyargs=[], args=args, vararg=None, kwonlyargs=[], kw_defaults=[], kwarg=None, defaults=defaults), body=body or [ast.Pass()], decorator_list=[], returns=None, type_comment=None, type_params=[])
    ast.copy_location(fd, cls)
    ast.fix_missing_locations(fd)
    return fd


class _Members:
    def __init__(self, cls: ast.ClassDef) -> None:
        self.cls = cls
        self.methods: dict[str, ast.FunctionDef | ast.AsyncFunctionDef] = {}
        self.fields: set[str] = set()
        self.alias: dict[str, str] = {}  # property that only reads (and writes) one field -> that field
        self.getter: dict[str, ast.expr] = {}  # read-only property -> the expression it returns
        self.static: set[str] = set()
        self.propmethods: set[str] = set()  # read-only properties with several statements: methods called at every read
        self.ok = True
        is_dc = any(_is_dataclass_deco(d) for d in cls.decorator_list)
        props: dict = {}
        post = None
        for st in _strip_doc(cls.body):
            if isinstance(st, (ast.FunctionDef, ast.AsyncFunctionDef)):
                decos = [ast.unparse(d) for d in st.decorator_list]
                if decos == ["property"] and isinstance(st, ast.FunctionDef):
                    props.setdefault(st.name, [None, None])[0] = st
                    continue
                if len(decos) == 1 and decos[0].endswith(".setter") and isinstance(st, ast.FunctionDef):
                    props.setdefault(st.name, [None, None])[1] = st
                    continue
                if decos == ["staticmethod"]:
                    self.static.add(st.name)
                elif decos:
                    self.ok = False
                if st.name == "__post_init__" and is_dc:
                    post = st
                    continue
                if st.name.startswith("__") and st.name != "__init__":
                    self.ok = False
                if st.args.vararg or st.args.kwarg or (not st.args.args and st.name not in self.static):
                    self.ok = False
                self.methods[st.name] = st
            elif isinstance(st, ast.AnnAssign) and isinstance(st.target, ast.Name) and (st.value is None or is_dc):
                if "ClassVar" not in ast.unparse(st.annotation):
                    self.fields.add(st.target.id)
                else:
                    self.ok = False  # class-level constants: keep it simple
            elif isinstance(st, ast.Assign) and len(st.targets) == 1 and isinstance(st.targets[0], ast.Name) and st.targets[0].id == "__slots__":
                try:
                    v = ast.literal_eval(st.value)
                except Exception:  # noqa: BLE001
                    self.ok = False
                    continue
                self.fields |= set([v] if isinstance(v, str) else v)
            elif isinstance(st, ast.Pass):
                pass
            else:
                self.ok = False
        if is_dc and "__init__" not in self.methods:
            init = _dataclass_init(cls, post)
            if init is None:
                self.ok = False
            else:
                self.methods["__init__"] = init
        elif post is not None:
            self.ok = False
        for pn, (g, s_) in props.items():
            gb = _strip_doc(g.body) if g is not None else []
            if g is not None and s_ is None and len(gb) > 1 and len(g.args.args) == 1 and isinstance(gb[-1], ast.Return) and gb[-1].value is not None and not any(isinstance(n, (ast.Yield, ast.YieldFrom, ast.Await)) for n in ast.walk(g)):
                # a read-only property that computes its value in several statements: a method, called where it is read
                m_ = copy.deepcopy(g)
                m_.decorator_list = []
                self.methods[pn] = m_
                self.propmethods.add(pn)
                continue
            if g is None or len(gb) != 1 or not isinstance(gb[0], ast.Return) or gb[0].value is None or len(g.args.args) != 1:
                self.ok = False
                continue
            gs = g.args.args[0].arg
            ge = gb[0].value
            if isinstance(ge, ast.Attribute) and isinstance(ge.value, ast.Name) and ge.value.id == gs:
                ok_set = s_ is None
                if s_ is not None:
                    sb_ = _strip_doc(s_.body)
                    ok_set = len(s_.args.args) == 2 and len(sb_) == 1 and isinstance(sb_[0], ast.Assign) and len(sb_[0].targets) == 1 and isinstance(sb_[0].targets[0], ast.Attribute) and isinstance(sb_[0].targets[0].value, ast.Name) and sb_[0].targets[0].value.id == s_.args.args[0].arg and sb_[0].targets[0].attr == ge.attr and isinstance(sb_[0].value, ast.Name) and sb_[0].value.id == s_.args.args[1].arg
                if ok_set:
                    self.alias[pn] = ge.attr
                    self.fields.add(ge.attr)
                    continue
                self.ok = False
                continue
            if s_ is not None:
                self.ok = False
                continue
            # a computed read-only view: usable inside the class (and only read)
            class _S(ast.NodeTransformer):
                def visit_Name(self, node):
                    return ast.copy_location(ast.Name(id="self", ctx=node.ctx), node) if node.id == gs else node

            self.getter[pn] = _S().visit(copy.deepcopy(ge))
        for m in self.methods.values():
            if m.name in self.static:
                continue
            sn = m.args.args[0].arg
            fine = set()
            for n in ast.walk(m):
                if isinstance(n, ast.Attribute) and isinstance(n.value, ast.Name) and n.value.id == sn:
                    fine.add(id(n.value))
                    if isinstance(n.ctx, ast.Store):
                        self.fields.add(n.attr)
            for n in ast.walk(m):
                if isinstance(n, ast.Name) and n.id == sn and id(n) not in fine:
                    self.ok = False  # the object itself escapes
                if isinstance(n, ast.Name) and n.id == "super":
                    self.ok = False
                if isinstance(n, (ast.FunctionDef, ast.AsyncFunctionDef, ast.Lambda, ast.ClassDef)) and n is not m:
                    self.ok = False  # closures over self: keep it simple
        if "__init__" not in self.methods:
            self.ok = False
        elif any(isinstance(n, (ast.Return, ast.Yield, ast.YieldFrom, ast.Await)) for n in ast.walk(self.methods["__init__"])):
            self.ok = False
        self.fields -= set(self.methods)


class _SelfRewrite(ast.NodeTransformer):
    """Inside a method of C: self.f -> <owner self>.<a>_f ; self.m -> <owner self>.<a>__m ; locals / params renamed."""

    def __init__(self, selfn: str, owner_self: str, attr: str, mem: _Members, names: dict, owner_fields: dict) -> None:
        self.selfn, self.owner_self, self.attr, self.mem, self.names, self.owner_fields = selfn, owner_self, attr, mem, names, owner_fields

    def visit_Attribute(self, node: ast.Attribute):
        if isinstance(node.value, ast.Name) and node.value.id == self.selfn:
            attr_ = self.mem.alias.get(node.attr, node.attr)
            if node.attr in self.mem.getter and isinstance(node.ctx, ast.Load):
                sub_ = _SelfRewrite("self", self.owner_self, self.attr, self.mem, {}, self.owner_fields)
                return ast.copy_location(sub_.visit(copy.deepcopy(self.mem.getter[node.attr])), node)
            if attr_ in self.owner_fields and isinstance(node.ctx, ast.Load):
                return ast.copy_location(copy.deepcopy(self.owner_fields[attr_]), node)
            new = f"{self.attr}__{attr_}" if attr_ in self.mem.methods else f"{self.attr}_{attr_}"
            out = ast.Attribute(value=ast.copy_location(ast.Name(id=self.owner_self, ctx=ast.Load()), node.value), attr=new, ctx=node.ctx)
            if attr_ in self.mem.propmethods and isinstance(node.ctx, ast.Load):
                return ast.copy_location(ast.Call(func=ast.copy_location(out, node), args=[], keywords=[]), node)
            return ast.copy_location(out, node)
        return self.generic_visit(node)

    def visit_Name(self, node: ast.Name):
        if node.id in self.names:
            r = self.names[node.id]
            if isinstance(r, str):
                return ast.copy_location(ast.Name(id=r, ctx=node.ctx), node)
            if isinstance(node.ctx, ast.Load):
                return ast.copy_location(copy.deepcopy(r), node)
        return node


def _bind_args(fn, call: ast.Call):
    a = fn.args
    if a.vararg or a.kwarg or a.posonlyargs or any(isinstance(x, ast.Starred) for x in call.args) or any(k.arg is None for k in call.keywords):
        return None
    pos = [x.arg for x in a.args][1:]
    kwonly = [x.arg for x in a.kwonlyargs]
    if len(call.args) > len(pos):
        return None
    out = dict(zip(pos, call.args))
    for k in call.keywords:
        if k.arg not in pos + kwonly or k.arg in out:
            return None
        out[k.arg] = k.value
    allpos = [x.arg for x in a.args]
    defaults = dict(zip(allpos[len(allpos) - len(a.defaults):], a.defaults)) if a.defaults else {}
    for nm, d in zip(kwonly, a.kw_defaults):
        if d is not None:
            defaults[nm] = d
    order = []
    for nm in pos + kwonly:
        if nm not in out:
            if nm not in defaults:
                return None
            out[nm] = defaults[nm]
        order.append(nm)
    return out, order


def flatten_collaborators(tree: ast.Module, foreign: set | None = None) -> int:
    count = 0
    progress = True
    while progress:
        progress = False
        classes = {n.name: n for n in tree.body if isinstance(n, ast.ClassDef)}
        for cname, cls in classes.items():
            if not (_is_private(cname) or (foreign is not None and cname not in foreign and not cname.startswith("__"))) or not class_shape_ok(cls):
                continue
            mem = _Members(cls)
            if not mem.ok:
                continue
            # exactly one instantiation, `self.<a> = C(...)` as a statement of O.__init__
            calls = [n for n in ast.walk(tree) if isinstance(n, ast.Call) and isinstance(n.func, ast.Name) and n.func.id == cname]
            refs = [n for n in ast.walk(tree) if isinstance(n, ast.Name) and n.id == cname and isinstance(n.ctx, ast.Load)]
            if not calls:
                continue
            # one instantiation in O.__init__ (`self.<a> = C(...)`); further ones are accepted only as re-creations
            # `self.<a> = C(...)` (a statement of a method of O) of the same attribute - see `extra_sites` below
            init_calls = []
            for oc_ in classes.values():
                for m_ in oc_.body:
                    if isinstance(m_, ast.FunctionDef) and m_.name == "__init__" and oc_ is not cls:
                        init_calls += [st_.value for st_ in m_.body if isinstance(st_, (ast.Assign, ast.AnnAssign)) and any(st_.value is c_ for c_ in calls)]
            if not init_calls and len(calls) == 1:
                init_calls = [calls[0]]  # not built in a constructor: a stateless view returned by a property (below)
            if len(init_calls) != 1:
                continue
            call = init_calls[0]
            other_calls = [c_ for c_ in calls if c_ is not call]
            site = None
            for ocls in classes.values():
                if ocls is cls:
                    continue
                for m in ocls.body:
                    if isinstance(m, ast.FunctionDef) and m.name == "__init__" and m.args.args:
                        for i, st in enumerate(m.body):
                            val = st.value if isinstance(st, (ast.Assign, ast.AnnAssign)) else None
                            if val is call:
                                tg = st.targets[0] if isinstance(st, ast.Assign) and len(st.targets) == 1 else st.target if isinstance(st, ast.AnnAssign) else None
                                if isinstance(tg, ast.Attribute) and isinstance(tg.value, ast.Name) and tg.value.id == m.args.args[0].arg:
                                    site = (ocls, m, i, st, tg.attr)
            view = None
            if site is None:
                # a stateless view built on every access: `@property def a(self): return C(self)` on the owner
                for ocls in classes.values():
                    if ocls is cls:
                        continue
                    for m in ocls.body:
                        if isinstance(m, ast.FunctionDef) and [ast.unparse(d) for d in m.decorator_list] == ["property"] and len(m.args.args) == 1:
                            b_ = _strip_doc(m.body)
                            if len(b_) == 1 and isinstance(b_[0], ast.Return) and b_[0].value is call:
                                view = (ocls, m)
            if site is None and view is not None:
                if _flatten_view(tree, classes, cls, mem, call, view):
                    count += 1
                    progress = True
                    break
                continue
            if site is None:
                continue
            ocls, oinit, idx, stmt, attr = site
            owner_self = oinit.args.args[0].arg
            # `self.<attr> = replace(self.<attr>, f=v, ..)` (dataclasses.replace / copy.replace) is the constructor called with
            # the init fields of the old object and the changes: rewritten to that constructor call, then treated as a
            # re-creation (the synthesised __init__ also re-runs the default_factory of init=False fields, as replace does)
            if "__init__" in mem.methods:
                ip_ = [a_.arg for a_ in mem.methods["__init__"].args.args[1:] + mem.methods["__init__"].args.kwonlyargs]
                for m_ in ocls.body:
                    if not isinstance(m_, (ast.FunctionDef, ast.AsyncFunctionDef)) or m_ is oinit:
                        continue
                    for st_ in ast.walk(m_):
                        v_ = st_.value if isinstance(st_, ast.Assign) and len(st_.targets) == 1 else None
                        if isinstance(v_, ast.Call) and (ast.unparse(v_.func) in ("replace", "dataclasses.replace", "copy.replace")) and len(v_.args) == 1 and isinstance(v_.args[0], ast.Attribute) and v_.args[0].attr == attr and isinstance(st_.targets[0], ast.Attribute) and st_.targets[0].attr == attr and all(k_.arg in ip_ for k_ in v_.keywords):
                            given_ = {k_.arg for k_ in v_.keywords}
                            kws_ = [ast.keyword(arg=p_, value=ast.copy_location(ast.Attribute(value=copy.deepcopy(v_.args[0]), attr=p_, ctx=ast.Load()), v_)) for p_ in ip_ if p_ not in given_] + list(v_.keywords)
                            synth_ = ast.copy_location(ast.Call(func=ast.copy_location(ast.Name(id=cname, ctx=ast.Load()), v_.func), args=[], keywords=kws_), v_)
                            ast.fix_missing_locations(synth_)
                            st_.value = synth_
                            other_calls.append(synth_)
            # re-creations: `self.<attr> = C(...)` as a statement (at any depth) of another method of the owner
            extra_sites = []
            bad_extra = False
            for oc_ in other_calls:
                found_ = None
                for m_ in ocls.body:
                    if not isinstance(m_, (ast.FunctionDef, ast.AsyncFunctionDef)) or m_ is oinit or not m_.args.args:
                        continue
                    for par_ in ast.walk(m_):
                        for fld_ in ("body", "orelse", "finalbody"):
                            lst_ = getattr(par_, fld_, None)
                            if isinstance(lst_, list):
                                for i_, st_ in enumerate(lst_):
                                    if isinstance(st_, ast.Assign) and st_.value is oc_ and len(st_.targets) == 1 and isinstance(st_.targets[0], ast.Attribute) and st_.targets[0].attr == attr and isinstance(st_.targets[0].value, ast.Name) and st_.targets[0].value.id == m_.args.args[0].arg:
                                        found_ = (m_, lst_, st_)
                if found_ is None:
                    bad_extra = True
                    break
                extra_sites.append((oc_, found_))
            if bad_extra:
                continue
            if other_calls and (mem.methods.get("__init__") is None or any(isinstance(n_, ast.Name) and n_.id == owner_self and False for n_ in [])):
                continue
            # the class name is used for nothing else at run time (annotations are strings under __future__ annotations)
            runtime_refs = [n for n in refs if n is not call.func and not any(n is oc_.func for oc_ in other_calls) and not _in_annotation(tree, n)]
            if runtime_refs:
                continue
            # every other use of <x>.<a> is <x>.<a>.<member>
            members = mem.fields | set(mem.alias) | set(mem.getter) | set(mem.methods) - {"__init__"}
            uses = [n for n in ast.walk(tree) if isinstance(n, ast.Attribute) and n.attr == attr]
            outer = {id(n.value): n for n in ast.walk(tree) if isinstance(n, ast.Attribute) and isinstance(n.value, ast.Attribute) and n.value.attr == attr}
            okuse = True
            extra_targets = {id(fs_[2].targets[0]) for _oc, fs_ in extra_sites}
            for u in uses:
                if u is (stmt.targets[0] if isinstance(stmt, ast.Assign) else stmt.target) or id(u) in extra_targets:
                    continue
                o = outer.get(id(u))
                if o is None or o.attr not in members or isinstance(u.ctx, ast.Store):
                    okuse = False
                    break
                if any(u is x for x in ast.walk(cls)):
                    okuse = False
                    break
            if not okuse:
                continue
            # no name clashes on the owner
            omembers = {m.name for m in ocls.body if isinstance(m, (ast.FunctionDef, ast.AsyncFunctionDef))} | {n.attr for n in ast.walk(ocls) if isinstance(n, ast.Attribute) and isinstance(n.ctx, ast.Store)} | {t.target.id for t in ocls.body if isinstance(t, ast.AnnAssign) and isinstance(t.target, ast.Name)}
            new_names = {f"{attr}_{f}" for f in mem.fields} | {f"{attr}__{m}" for m in mem.methods}
            if new_names & omembers:
                continue
            bound = _bind_args(mem.methods["__init__"], call)
            if bound is None:
                continue
            amap, order = bound
            count += 1
            k = count
            init = mem.methods["__init__"]
            # fields that only ever hold the owner itself (a back reference handed to the constructor)
            owner_fields: dict = {}
            for f in mem.fields:
                stores = [(m, n) for m in mem.methods.values() for n in ast.walk(m) if isinstance(n, (ast.Assign, ast.AnnAssign)) and any(isinstance(t, ast.Attribute) and isinstance(t.value, ast.Name) and t.value.id == m.args.args[0].arg and t.attr == f for t in (n.targets if isinstance(n, ast.Assign) else [n.target]))]
                if len(stores) == 1 and stores[0][0] is init and isinstance(stores[0][1].value, ast.Name) and stores[0][1].value.id in amap:
                    a0 = amap[stores[0][1].value.id]
                    if isinstance(a0, ast.Name) and a0.id == owner_self:
                        owner_fields[f] = ast.Name(id=owner_self, ctx=ast.Load())
            # constructor body in place of the instantiation
            pre: list = []
            names: dict = {}
            complex_args = [p for p in order if not (isinstance(amap[p], (ast.Name, ast.Constant)) or (isinstance(amap[p], ast.Attribute) and isinstance(amap[p].value, ast.Name)))]
            for p in order:
                a0 = amap[p]
                if isinstance(a0, (ast.Name, ast.Constant)) or (isinstance(a0, ast.Attribute) and isinstance(a0.value, ast.Name)):
                    names[p] = a0
                elif len(complex_args) == 1 and sum(1 for n in ast.walk(init) if isinstance(n, ast.Name) and n.id == p and isinstance(n.ctx, ast.Load)) == 1:
                    names[p] = a0  # the only computed argument, used once: written where it is used
                else:
                    ln = f"__co{k}_{p}"
                    pre.append(ast.copy_location(ast.Assign(targets=[ast.Name(id=ln, ctx=ast.Store())], value=a0), stmt))
                    names[p] = ln
            locals_ = {n.id for n in ast.walk(init) if isinstance(n, ast.Name) and isinstance(n.ctx, ast.Store)}
            for ln in locals_:
                names[ln] = f"__co{k}_{ln}"
            rw = _SelfRewrite(init.args.args[0].arg, owner_self, attr, mem, names, owner_fields)
            body = []
            for st in _strip_doc(init.body):
                if owner_fields and isinstance(st, (ast.Assign, ast.AnnAssign)):
                    tg = st.targets[0] if isinstance(st, ast.Assign) else st.target
                    if isinstance(tg, ast.Attribute) and tg.attr in owner_fields:
                        continue  # the back reference itself
                body.append(rw.visit(copy.deepcopy(st)))
            new_stmts = pre + body
            for s in new_stmts:
                ast.fix_missing_locations(s)
            oinit.body[idx : idx + 1] = new_stmts or [ast.copy_location(ast.Pass(), stmt)]
            # re-creations: every argument is evaluated into a temporary first (they may read the fields that are about
            # to be overwritten), then the constructor body runs on the owner's flattened fields
            for xi_, (oc_, (m_, lst_, st_)) in enumerate(extra_sites):
                b2 = _bind_args(init, oc_)
                if b2 is None:
                    raise_flag = True
                    continue
                amap2, order2 = b2
                msel = m_.args.args[0].arg
                pre2 = []
                names2: dict = {}
                for p_ in order2:
                    ln_ = f"__co{k}x{xi_}_{p_}"
                    pre2.append(ast.copy_location(ast.Assign(targets=[ast.Name(id=ln_, ctx=ast.Store())], value=amap2[p_]), st_))
                    names2[p_] = ln_
                for ln_ in {n.id for n in ast.walk(init) if isinstance(n, ast.Name) and isinstance(n.ctx, ast.Store)}:
                    names2[ln_] = f"__co{k}x{xi_}_{ln_}"
                rw2 = _SelfRewrite(init.args.args[0].arg, msel, attr, mem, names2, owner_fields)
                body2 = [rw2.visit(copy.deepcopy(b_)) for b_ in _strip_doc(init.body) if not (owner_fields and isinstance(b_, (ast.Assign, ast.AnnAssign)) and isinstance((b_.targets[0] if isinstance(b_, ast.Assign) else b_.target), ast.Attribute) and (b_.targets[0] if isinstance(b_, ast.Assign) else b_.target).attr in owner_fields)]
                new2 = pre2 + body2
                for s2 in new2:
                    ast.fix_missing_locations(s2)
                j_ = next(i_ for i_, x_ in enumerate(lst_) if x_ is st_)
                lst_[j_ : j_ + 1] = new2
            # methods
            for mname, m in mem.methods.items():
                if mname == "__init__":
                    continue
                m2 = copy.deepcopy(m)
                m2.name = f"{attr}__{mname}"
                if mname in mem.static:
                    ocls.body.append(m2)
                    continue
                sn = m2.args.args[0].arg
                m2.args.args[0].arg = owner_self
                m2.body = [_SelfRewrite(sn, owner_self, attr, mem, {}, owner_fields).visit(b) for b in m2.body]
                m2._flattened_from = cname  # type: ignore[attr-defined]
                ocls.body.append(m2)
            # accesses
            _Access(attr, mem, cls).visit(tree)
            tree.body.remove(cls)
            fmap = getattr(tree, "_flatten_map", None) or {}
            fmap[cname] = (ocls.name, attr)
            tree._flatten_map = fmap  # type: ignore[attr-defined]
            progress = True
            break
    if count:
        ast.fix_missing_locations(tree)
    return count


def _flatten_view(tree: ast.Module, classes: dict, cls: ast.ClassDef, mem: _Members, call: ast.Call, view) -> bool:
    ocls, prop = view
    attr = prop.name
    owner_self = prop.args.args[0].arg
    cname = cls.name
    refs = [n for n in ast.walk(tree) if isinstance(n, ast.Name) and n.id == cname and isinstance(n.ctx, ast.Load)]
    if [n for n in refs if n is not call.func and not _in_annotation(tree, n)]:
        return False
    init = mem.methods["__init__"]
    bound = _bind_args(init, call)
    if bound is None:
        return False
    amap, _order = bound
    # the constructor only stores its arguments, and every argument is the owner or an attribute of it
    owner_fields: dict = {}
    for st in _strip_doc(init.body):
        tg = st.targets[0] if isinstance(st, ast.Assign) and len(st.targets) == 1 else st.target if isinstance(st, ast.AnnAssign) else None
        if not (isinstance(tg, ast.Attribute) and isinstance(tg.value, ast.Name) and tg.value.id == init.args.args[0].arg and isinstance(st.value, ast.Name) and st.value.id in amap):
            return False
        a0 = amap[st.value.id]
        if isinstance(a0, ast.Name) and a0.id == owner_self:
            owner_fields[tg.attr] = ast.Name(id=owner_self, ctx=ast.Load())
        elif isinstance(a0, ast.Attribute) and isinstance(a0.value, ast.Name) and a0.value.id == owner_self:
            owner_fields[tg.attr] = copy.deepcopy(a0)
        else:
            return False
    if set(mem.fields) - set(owner_fields):
        return False  # state of its own: not a view
    for m in mem.methods.values():
        if m is init:
            continue
        sn = m.args.args[0].arg if m.args.args else None
        if any(isinstance(n, ast.Attribute) and isinstance(n.value, ast.Name) and n.value.id == sn and isinstance(n.ctx, ast.Store) for n in ast.walk(m)):
            return False
    members = set(mem.alias) | set(mem.getter) | set(mem.methods) - {"__init__"}
    uses = [n for n in ast.walk(tree) if isinstance(n, ast.Attribute) and n.attr == attr]
    outer = {id(n.value): n for n in ast.walk(tree) if isinstance(n, ast.Attribute) and isinstance(n.value, ast.Attribute) and n.value.attr == attr}
    for u in uses:
        o = outer.get(id(u))
        if o is None or o.attr not in set(mem.methods) - {"__init__"} or isinstance(u.ctx, ast.Store) or any(u is x for x in ast.walk(cls)):
            return False
    omembers = {m.name for m in ocls.body if isinstance(m, (ast.FunctionDef, ast.AsyncFunctionDef))}
    if {f"{attr}__{m}" for m in mem.methods} & omembers:
        return False
    for mname, m in mem.methods.items():
        if mname == "__init__":
            continue
        m2 = copy.deepcopy(m)
        m2.name = f"{attr}__{mname}"
        if mname not in mem.static:
            sn = m2.args.args[0].arg
            m2.args.args[0].arg = owner_self
            m2.body = [_SelfRewrite(sn, owner_self, attr, mem, {}, owner_fields).visit(b) for b in m2.body]
        ocls.body.append(m2)
    _Access(attr, mem, cls).visit(tree)
    ocls.body.remove(prop)
    tree.body.remove(cls)
    fmap = getattr(tree, "_flatten_map", None) or {}
    fmap[cname] = (ocls.name, attr)
    tree._flatten_map = fmap  # type: ignore[attr-defined]
    ast.fix_missing_locations(tree)
    return True


class _Access(ast.NodeTransformer):
    def __init__(self, attr: str, mem: _Members, cls: ast.ClassDef) -> None:
        self.attr, self.mem, self.cls = attr, mem, cls

    def visit_ClassDef(self, node: ast.ClassDef):
        if node is self.cls:
            return node
        return self.generic_visit(node)

    def visit_Attribute(self, node: ast.Attribute):
        self.generic_visit(node)
        v = node.value
        a_ = self.mem.alias.get(node.attr, node.attr)
        if isinstance(v, ast.Attribute) and v.attr == self.attr and node.attr in self.mem.getter and isinstance(node.ctx, ast.Load) and isinstance(v.value, ast.Name):
            # a read-only computed property of the collaborator: its expression, on the owner's flattened fields
            sub_ = _SelfRewrite("self", v.value.id, self.attr, self.mem, {}, {})
            return ast.copy_location(sub_.visit(copy.deepcopy(self.mem.getter[node.attr])), node)
        if isinstance(v, ast.Attribute) and v.attr == self.attr and (a_ in self.mem.fields or a_ in self.mem.methods):
            new = f"{self.attr}__{a_}" if a_ in self.mem.methods else f"{self.attr}_{a_}"
            out_ = ast.copy_location(ast.Attribute(value=v.value, attr=new, ctx=node.ctx), node)
            if a_ in self.mem.propmethods and isinstance(node.ctx, ast.Load):
                return ast.copy_location(ast.Call(func=out_, args=[], keywords=[]), node)
            return out_
        return node


def _in_annotation(tree: ast.Module, name: ast.Name) -> bool:
    for n in ast.walk(tree):
        if isinstance(n, (ast.FunctionDef, ast.AsyncFunctionDef)):
            anns = [a.annotation for a in n.args.args + n.args.kwonlyargs + n.args.posonlyargs if a.annotation is not None]
            if n.returns is not None:
                anns.append(n.returns)
            for a in anns:
                if any(x is name for x in ast.walk(a)):
                    return True
        elif isinstance(n, ast.AnnAssign):
            if any(x is name for x in ast.walk(n.annotation)):
                return True
    return False


class _LocalRewrite(ast.NodeTransformer):
    """Inside a method of C that becomes a nested function: self.f -> local ; self.m -> nested function name."""

    def __init__(self, selfn: str, var: str, mem: _Members, direct: dict, names: dict | None = None) -> None:
        self.selfn, self.var, self.mem, self.direct, self.names = selfn, var, mem, direct, names or {}

    def visit_Attribute(self, node: ast.Attribute):
        if isinstance(node.value, ast.Name) and node.value.id == self.selfn:
            attr_ = self.mem.alias.get(node.attr, node.attr)
            if node.attr in self.mem.getter and isinstance(node.ctx, ast.Load):
                sub_ = _LocalRewrite("self", self.var, self.mem, self.direct)
                return ast.copy_location(sub_.visit(copy.deepcopy(self.mem.getter[node.attr])), node)
            if attr_ in self.direct and isinstance(node.ctx, ast.Load):
                return ast.copy_location(copy.deepcopy(self.direct[attr_]), node)
            new = f"{self.var}__{attr_}" if attr_ in self.mem.methods else f"{self.var}_{attr_}"
            nm_ = ast.copy_location(ast.Name(id=new, ctx=node.ctx), node)
            if attr_ in self.mem.propmethods and isinstance(node.ctx, ast.Load):
                return ast.copy_location(ast.Call(func=nm_, args=[], keywords=[]), node)
            return nm_
        return self.generic_visit(node)

    def visit_Name(self, node: ast.Name):
        if node.id in self.names:
            r = self.names[node.id]
            if isinstance(r, str):
                return ast.copy_location(ast.Name(id=r, ctx=node.ctx), node)
            if isinstance(node.ctx, ast.Load):
                return ast.copy_location(copy.deepcopy(r), node)
        return node


class _VarAccess(ast.NodeTransformer):
    def __init__(self, var: str, mem: _Members) -> None:
        self.var, self.mem = var, mem

    def visit_Attribute(self, node: ast.Attribute):
        self.generic_visit(node)
        a_ = self.mem.alias.get(node.attr, node.attr)
        if isinstance(node.value, ast.Name) and node.value.id == self.var and (a_ in self.mem.fields or a_ in self.mem.methods):
            new = f"{self.var}__{a_}" if a_ in self.mem.methods else f"{self.var}_{a_}"
            nm_ = ast.copy_location(ast.Name(id=new, ctx=node.ctx), node)
            if a_ in self.mem.propmethods and isinstance(node.ctx, ast.Load):
                return ast.copy_location(ast.Call(func=nm_, args=[], keywords=[]), node)
            return nm_
        return node


def _hoist_temporaries(tree: ast.Module, cls: ast.ClassDef, cname: str) -> None:
    """`C(args).m(...)` as the first thing a statement evaluates  ->  `__objN = C(args)` in front of it and `__objN.m(...)`."""
    n_ = [0]
    for fn in ast.walk(tree):
        if not isinstance(fn, (ast.FunctionDef, ast.AsyncFunctionDef)) or any(fn is x for x in ast.walk(cls)):
            continue
        new_body = []
        for st in fn.body:
            v = st.value if isinstance(st, (ast.Expr, ast.Assign, ast.AnnAssign, ast.Return)) else None
            if isinstance(v, ast.Await):
                v = v.value
            if isinstance(v, ast.Call) and isinstance(v.func, ast.Attribute) and isinstance(v.func.value, ast.Call) and isinstance(v.func.value.func, ast.Name) and v.func.value.func.id == cname:
                taken = {n.id for n in ast.walk(fn) if isinstance(n, ast.Name)}
                while True:
                    n_[0] += 1
                    nm = f"__obj{n_[0]}"
                    if nm not in taken:
                        break
                inst = v.func.value
                asg = ast.copy_location(ast.Assign(targets=[ast.copy_location(ast.Name(id=nm, ctx=ast.Store()), inst)], value=inst), st)
                v.func.value = ast.copy_location(ast.Name(id=nm, ctx=ast.Load()), inst)
                new_body.append(asg)
            new_body.append(st)
        fn.body = new_body


def flatten_local_instances(tree: ast.Module, foreign: set | None = None) -> int:
    """`var = C(args)` as a statement of a function, C a private class of the module instantiated only there, `var`
    only ever used as `var.<member>` (also from nested functions): the fields become locals of the function and the
    methods nested functions defined in front of the constructor body."""
    count = 0
    progress = True
    while progress:
        progress = False
        classes = {n.name: n for n in tree.body if isinstance(n, ast.ClassDef)}
        for cname, cls in classes.items():
            if not (_is_private(cname) or (foreign is not None and cname not in foreign and not cname.startswith("__"))) or not class_shape_ok(cls):
                continue
            mem = _Members(cls)
            if not mem.ok:
                continue
            _hoist_temporaries(tree, cls, cname)
            calls = [n for n in ast.walk(tree) if isinstance(n, ast.Call) and isinstance(n.func, ast.Name) and n.func.id == cname]
            refs = [n for n in ast.walk(tree) if isinstance(n, ast.Name) and n.id == cname and isinstance(n.ctx, ast.Load)]
            if not calls:
                continue
            if [n for n in refs if not any(n is c_.func for c_ in calls) and not _in_annotation(tree, n)]:
                continue
            # every instantiation is `var = C(args)` as a statement of a function; one of them is flattened per round
            sites = []
            for fn in ast.walk(tree):
                if isinstance(fn, (ast.FunctionDef, ast.AsyncFunctionDef)) and not any(fn is x for x in ast.walk(cls)):
                    for i, st in enumerate(fn.body):
                        if isinstance(st, (ast.Assign, ast.AnnAssign)) and any(st.value is c_ for c_ in calls):
                            tg = st.targets[0] if isinstance(st, ast.Assign) and len(st.targets) == 1 else st.target if isinstance(st, ast.AnnAssign) else None
                            if isinstance(tg, ast.Name):
                                sites.append((fn, i, st, tg.id))
            if len(sites) != len(calls):
                continue
            site = sites[0]
            call = site[2].value
            last_site = len(sites) == 1
            fn, idx, stmt, var = site
            # every other occurrence of `var` in the function is var.<member>; var is bound once
            members = mem.fields | set(mem.alias) | set(mem.methods) - {"__init__"}
            fine = {id(n.value) for n in ast.walk(fn) if isinstance(n, ast.Attribute) and isinstance(n.value, ast.Name) and n.value.id == var and n.attr in members}
            occ = [n for n in ast.walk(fn) if isinstance(n, ast.Name) and n.id == var]
            tgt = stmt.targets[0] if isinstance(stmt, ast.Assign) else stmt.target
            if any(n is not tgt and id(n) not in fine for n in occ):
                continue
            taken = {n.id for n in ast.walk(fn) if isinstance(n, ast.Name)} | {a.arg for a in fn.args.args + fn.args.kwonlyargs} | {n.name for n in ast.walk(fn) if isinstance(n, (ast.FunctionDef, ast.AsyncFunctionDef)) and n is not fn}
            new_names = {f"{var}_{f}" for f in mem.fields} | {f"{var}__{m}" for m in mem.methods}
            if new_names & taken:
                continue
            bound = _bind_args(mem.methods["__init__"], call)
            if bound is None:
                continue
            amap, order = bound
            count += 1
            k = count
            init = mem.methods["__init__"]
            fn_stores = {n.id for n in ast.walk(fn) if isinstance(n, ast.Name) and isinstance(n.ctx, ast.Store)}
            # fields that only ever hold a constructor argument which is a never re-bound name of the function
            direct: dict = {}
            for f in mem.fields:
                stores = [(m, n) for m in mem.methods.values() for n in ast.walk(m) if isinstance(n, (ast.Assign, ast.AnnAssign)) and any(isinstance(t, ast.Attribute) and isinstance(t.value, ast.Name) and t.value.id == m.args.args[0].arg and t.attr == f for t in (n.targets if isinstance(n, ast.Assign) else [n.target]))]
                if len(stores) == 1 and stores[0][0] is init and isinstance(stores[0][1].value, ast.Name) and stores[0][1].value.id in amap:
                    a0 = amap[stores[0][1].value.id]
                    if isinstance(a0, ast.Name) and a0.id not in fn_stores:
                        direct[f] = ast.Name(id=a0.id, ctx=ast.Load())
            pre: list = []
            names: dict = {}
            for p in order:
                a0 = amap[p]
                if isinstance(a0, (ast.Name, ast.Constant)):
                    names[p] = a0
                else:
                    ln = f"__co{k}_{p}"
                    pre.append(ast.copy_location(ast.Assign(targets=[ast.Name(id=ln, ctx=ast.Store())], value=a0), stmt))
                    names[p] = ln
            for ln in {n.id for n in ast.walk(init) if isinstance(n, ast.Name) and isinstance(n.ctx, ast.Store)}:
                names[ln] = f"__co{k}_{ln}"
            # methods -> nested functions
            nested: list = []
            for mname, m in mem.methods.items():
                if mname == "__init__":
                    continue
                m2 = copy.deepcopy(m)
                m2.name = f"{var}__{mname}"
                sn = m2.args.args[0].arg
                m2.args.args = m2.args.args[1:]
                stored_here = sorted({n.attr for n in ast.walk(m) if isinstance(n, ast.Attribute) and isinstance(n.value, ast.Name) and n.value.id == sn and isinstance(n.ctx, ast.Store)})
                m2.body = [_LocalRewrite(sn, var, mem, direct).visit(b) for b in m2.body]
                if stored_here:
                    nl = ast.copy_location(ast.Nonlocal(names=[f"{var}_{f}" for f in stored_here]), m2.body[0])
                    doc = 1 if isinstance(m2.body[0], ast.Expr) and isinstance(m2.body[0].value, ast.Constant) else 0
                    m2.body.insert(doc, nl)
                nested.append(m2)
            rw = _LocalRewrite(init.args.args[0].arg, var, mem, direct, names)
            body = []
            for st in _strip_doc(init.body):
                if direct and isinstance(st, (ast.Assign, ast.AnnAssign)):
                    tg2 = st.targets[0] if isinstance(st, ast.Assign) else st.target
                    if isinstance(tg2, ast.Attribute) and tg2.attr in direct:
                        continue
                body.append(rw.visit(copy.deepcopy(st)))
            new_stmts = nested + pre + body
            fn.body[idx : idx + 1] = new_stmts or [ast.copy_location(ast.Pass(), stmt)]
            _VarAccess(var, mem).visit(fn)
            if last_site:
                tree.body.remove(cls)
            fmap = getattr(tree, "_flatten_local", None) or {}
            fmap[cname] = var
            tree._flatten_local = fmap  # type: ignore[attr-defined]
            progress = True
            break
    if count:
        ast.fix_missing_locations(tree)
    return count
