"""Source-level normalisation applied once when a module is parsed.

`match` statements with the simple pattern kinds (value, singleton, class without sub-patterns, wildcard, capture,
or-patterns, guards) are rewritten into the if / elif chain they mean, so that every analysis sees one statement form.
Sub-expressions keep their original nodes (and positions: typed facts stay addressable); the tests that are
synthesised carry `_synthetic = True`.  A pattern kind outside this fragment (sequence / mapping patterns, class
patterns with sub-patterns) is left as a `match` statement - the analyses then report it as not modelled.
"""

from __future__ import annotations

import ast


def _mark(n: ast.AST, like: ast.AST) -> ast.AST:
    ast.copy_location(n, like)
    n._synthetic = True  # type: ignore[attr-defined]
    for ch in ast.walk(n):
        if not hasattr(ch, "lineno") and isinstance(ch, (ast.expr, ast.stmt)):
            ast.copy_location(ch, like)
    return n


def _pattern_test(pat: ast.pattern, subject: ast.expr):
    """(test expr | None for 'always', bindings [(name, expr)]) or raises NotImplementedError."""
    if isinstance(pat, ast.MatchValue):
        return _mark(ast.Compare(left=subject, ops=[ast.Eq()], comparators=[pat.value]), pat), []
    if isinstance(pat, ast.MatchSingleton):
        return _mark(ast.Compare(left=subject, ops=[ast.Is()], comparators=[ast.Constant(value=pat.value)]), pat), []
    if isinstance(pat, ast.MatchClass) and not pat.patterns and not pat.kwd_patterns:
        return _mark(ast.Call(func=ast.Name(id="isinstance", ctx=ast.Load()), args=[subject, pat.cls], keywords=[]), pat), []
    if isinstance(pat, ast.MatchAs):
        if pat.pattern is None:
            return None, ([(pat.name, subject)] if pat.name else [])
        t, b = _pattern_test(pat.pattern, subject)
        return t, b + ([(pat.name, subject)] if pat.name else [])
    if isinstance(pat, ast.MatchOr):
        tests = []
        for p in pat.patterns:
            t, b = _pattern_test(p, subject)
            if b:
                raise NotImplementedError
            if t is None:
                return None, []
            tests.append(t)
        return _mark(ast.BoolOp(op=ast.Or(), values=tests), pat), []
    raise NotImplementedError


class _Desugar(ast.NodeTransformer):
    _fdepth = 0

    def visit_FunctionDef(self, node):
        self._fdepth += 1
        try:
            return self.generic_visit(node)
        finally:
            self._fdepth -= 1

    visit_AsyncFunctionDef = visit_FunctionDef

    def visit_ClassDef(self, node):
        saved, self._fdepth = self._fdepth, 0  # a class body inside a function is not function scope
        try:
            return self.generic_visit(node)
        finally:
            self._fdepth = saved

    def visit_AnnAssign(self, node: ast.AnnAssign):
        """Inside a function `x: T = v` is `x = v`: annotations of function-scope targets are never evaluated.  The
        annotation stays available as `_annotation` (interface types are read from it)."""
        self.generic_visit(node)
        if self._fdepth and node.value is not None:
            new = ast.Assign(targets=[node.target], value=node.value)
            new._annotation = node.annotation  # type: ignore[attr-defined]
            return _mark(new, node)
        return node

    def visit_Return(self, node: ast.Return):
        """`return a if c else b`  ==  `if c: return a` / `else: return b` (same evaluation order, one arm evaluated):
        the analyses see the statement form."""
        self.generic_visit(node)
        v = node.value
        if isinstance(v, ast.IfExp):
            return _mark(ast.If(test=v.test, body=[self.visit_Return(_mark(ast.Return(value=v.body), node))], orelse=[self.visit_Return(_mark(ast.Return(value=v.orelse), node))]), node)
        return node

    def __init__(self) -> None:
        self.count = 0

    def visit_Match(self, node: ast.Match):
        self.generic_visit(node)
        pre: list[ast.stmt] = []
        subject = node.subject
        if not isinstance(subject, ast.Name):
            self.count += 1
            tmp = f"__match_subject_{self.count}"
            pre.append(_mark(ast.Assign(targets=[ast.Name(id=tmp, ctx=ast.Store())], value=subject), node))
            subject = _mark(ast.Name(id=tmp, ctx=ast.Load()), node)
        try:
            branches = []
            for case in node.cases:
                sub = ast.Name(id=subject.id, ctx=ast.Load())
                ast.copy_location(sub, case.pattern)
                t, binds = _pattern_test(case.pattern, sub)
                body = list(case.body)
                if binds:
                    body = [_mark(ast.Assign(targets=[ast.Name(id=n, ctx=ast.Store())], value=e), case.pattern) for n, e in binds] + body
                    if case.guard is not None:
                        raise NotImplementedError  # a guard that reads the capture would need the binding first
                test = t
                if case.guard is not None:
                    test = case.guard if test is None else _mark(ast.BoolOp(op=ast.And(), values=[test, case.guard]), case.pattern)
                branches.append((test, body, case))
        except NotImplementedError:
            return node
        # build the chain from the back
        orelse: list[ast.stmt] = []
        for test, body, case in reversed(branches):
            if test is None:
                orelse = body
            else:
                orelse = [_mark(ast.If(test=test, body=body, orelse=orelse), case.pattern)]
        if not orelse:
            orelse = [_mark(ast.Pass(), node)]
        return pre + orelse


# ---------------------------------------------------------------------------
# exception-translating context managers defined in the same module


class _Subst(ast.NodeTransformer):
    def __init__(self, names: dict, attrs: dict | None = None, self_name: str | None = None) -> None:
        self.names = names
        self.attrs = attrs or {}
        self.self_name = self_name

    def visit_Name(self, node: ast.Name):
        if isinstance(node.ctx, ast.Load) and node.id in self.names:
            import copy

            return copy.deepcopy(self.names[node.id])
        return node

    def visit_Attribute(self, node: ast.Attribute):
        if self.self_name and isinstance(node.value, ast.Name) and node.value.id == self.self_name and node.attr in self.attrs and isinstance(node.ctx, ast.Load):
            import copy

            return copy.deepcopy(self.attrs[node.attr])
        return self.generic_visit(node)


def _strip_doc(body: list) -> list:
    return body[1:] if body and isinstance(body[0], ast.Expr) and isinstance(body[0].value, ast.Constant) and isinstance(body[0].value.value, str) else list(body)


def _bind(fn: ast.FunctionDef | ast.AsyncFunctionDef, call: ast.Call, skip_self: bool = False):
    """parameter -> argument expression (defaults filled in) or None when the call cannot be mapped."""
    a = fn.args
    if a.vararg or a.kwarg or any(isinstance(x, ast.Starred) for x in call.args) or any(k.arg is None for k in call.keywords):
        return None
    pos = [x.arg for x in a.posonlyargs + a.args]
    if skip_self:
        pos = pos[1:]
    if len(call.args) > len(pos):
        return None
    out = dict(zip(pos, call.args))
    kwonly = [x.arg for x in a.kwonlyargs]
    for k in call.keywords:
        if k.arg not in pos + kwonly or k.arg in out:
            return None
        out[k.arg] = k.value
    defaults = dict(zip(pos[len(pos) - len(a.defaults):] if a.defaults else [], a.defaults))
    if skip_self and a.defaults:
        allpos = [x.arg for x in a.posonlyargs + a.args]
        defaults = dict(zip(allpos[len(allpos) - len(a.defaults):], a.defaults))
    for nm, d in zip(kwonly, a.kw_defaults):
        if d is not None:
            defaults[nm] = d
    for nm in pos + kwonly:
        if nm not in out:
            if nm not in defaults:
                return None
            out[nm] = defaults[nm]
    return out


def _generator_cm(fn) -> ast.Try | None:
    """The single `try: yield / except ...` of a @contextmanager function, or None."""
    if not any((isinstance(d, ast.Name) and d.id in ("contextmanager", "asynccontextmanager")) or (isinstance(d, ast.Attribute) and d.attr in ("contextmanager", "asynccontextmanager")) for d in fn.decorator_list):
        return None
    body = _strip_doc(fn.body)
    if len(body) != 1 or not isinstance(body[0], ast.Try):
        return None
    t = body[0]
    if len(t.body) != 1 or not (isinstance(t.body[0], ast.Expr) and isinstance(t.body[0].value, ast.Yield) and t.body[0].value.value is None) or t.orelse:
        return None
    if any(isinstance(n, (ast.Yield, ast.YieldFrom, ast.Return)) for h in t.handlers for b in h.body for n in ast.walk(b)):
        return None
    return t


def _plain_generator_cm(fn):
    """(statements before the yield, statements after it) of a @contextmanager function of the shape
    `<pre>; yield; <post>` with no try around the yield: an exception of the with-body is thrown at the yield and leaves
    the generator at once, so `with cm(a): BODY` is `<pre>; BODY; <post>` with the parameters replaced by the arguments."""
    if not any((isinstance(d, ast.Name) and d.id in ("contextmanager", "asynccontextmanager")) or (isinstance(d, ast.Attribute) and d.attr in ("contextmanager", "asynccontextmanager")) for d in fn.decorator_list):
        return None
    body = _strip_doc(fn.body)
    ys = [i for i, b in enumerate(body) if isinstance(b, ast.Expr) and isinstance(b.value, ast.Yield)]
    trynode = None
    if not ys:
        # `<pre>; try: yield [v] except .. / finally: ..; <post>`: the try is put around the with-body
        ts = [i for i, b in enumerate(body) if isinstance(b, ast.Try) and len(b.body) == 1 and isinstance(b.body[0], ast.Expr) and isinstance(b.body[0].value, ast.Yield) and not b.orelse]
        if len(ts) != 1:
            return None
        trynode = body[ts[0]]
        ystmt = trynode.body[0]
        pre, post = body[: ts[0]], body[ts[0] + 1 :]
        if any(isinstance(n, (ast.Yield, ast.YieldFrom, ast.Return)) for h in trynode.handlers for b in h.body for n in ast.walk(b)) or any(isinstance(n, (ast.Yield, ast.YieldFrom, ast.Return)) for b in trynode.finalbody for n in ast.walk(b)):
            return None
        if not pre and not post and ystmt.value.value is None:
            return None  # the plain try form is _generator_cm's
    elif len(ys) == 1:
        ystmt = body[ys[0]]
        pre, post = body[: ys[0]], body[ys[0] + 1 :]
    else:
        return None
    yv = ystmt.value.value
    if yv is not None and any(isinstance(n, (ast.Yield, ast.YieldFrom, ast.Lambda, ast.Await)) for n in ast.walk(yv)):
        return None
    extra_ = (list(trynode.finalbody) + [b for h in trynode.handlers for b in h.body]) if trynode is not None else []
    if any(isinstance(n, (ast.FunctionDef, ast.AsyncFunctionDef, ast.Lambda, ast.Global, ast.Nonlocal)) for b in extra_ for n in ast.walk(b)):
        return None
    for b in pre + post:
        if any(isinstance(n, (ast.Yield, ast.YieldFrom, ast.Return, ast.FunctionDef, ast.AsyncFunctionDef, ast.Lambda, ast.Global, ast.Nonlocal)) for n in ast.walk(b)):
            return None
    # parameters are not re-bound
    params = {x.arg for x in fn.args.posonlyargs + fn.args.args + fn.args.kwonlyargs}
    if any(isinstance(n, ast.Name) and n.id in params and isinstance(n.ctx, (ast.Store, ast.Del)) for b in pre + post + extra_ for n in ast.walk(b)):
        return None
    return pre, post, yv, trynode


def _pure_arg(e: ast.expr) -> bool:
    """A name, a constant, or an attribute chain on a name: evaluating it again later gives the same object as long as
    nothing re-binds it (the buffer attributes, locals of the caller)."""
    while isinstance(e, ast.Attribute):
        e = e.value
    return isinstance(e, (ast.Name, ast.Constant))


def _class_cm(cls: ast.ClassDef):
    """(exit function, exception types expr, exc-value parameter name, statements) for a class whose __enter__ does
    nothing and whose __exit__ is  `if <exception is not of T>: return <falsy>` ; <statements> ; `return <falsy>` | raise."""
    meths = {n.name: n for n in cls.body if isinstance(n, (ast.FunctionDef, ast.AsyncFunctionDef))}
    ent = meths.get("__enter__") or meths.get("__aenter__")
    ext = meths.get("__exit__") or meths.get("__aexit__")
    init = meths.get("__init__")
    if ent is None or ext is None or init is None:
        return None
    eb = _strip_doc(ent.body)
    if not all(isinstance(x, ast.Pass) or (isinstance(x, ast.Return) and (x.value is None or (isinstance(x.value, ast.Name) and x.value.id == ent.args.args[0].arg) or (isinstance(x.value, ast.Constant) and x.value.value is None))) for x in eb):
        return None
    params = [x.arg for x in ext.args.args]
    if len(params) != 4:
        return None
    selfn, tname, vname, _tb = params
    body = _strip_doc(ext.body)
    if not body or not isinstance(body[0], ast.If) or body[0].orelse:
        return None
    g = body[0]
    if not (len(g.body) == 1 and isinstance(g.body[0], ast.Return) and (g.body[0].value is None or (isinstance(g.body[0].value, ast.Constant) and not g.body[0].value.value))):
        return None

    def positive(e):
        """types expr T when e means 'the exception is an instance of T'."""
        if isinstance(e, ast.Call) and isinstance(e.func, ast.Name) and len(e.args) == 2:
            if e.func.id == "isinstance" and isinstance(e.args[0], ast.Name) and e.args[0].id == vname:
                return e.args[1]
            if e.func.id == "issubclass" and isinstance(e.args[0], ast.Name) and e.args[0].id == tname:
                return e.args[1]
        if isinstance(e, ast.BoolOp) and isinstance(e.op, ast.And) and len(e.values) >= 2:
            *nn, b = e.values
            if all(isinstance(a, ast.Compare) and len(a.ops) == 1 and isinstance(a.ops[0], ast.IsNot) and isinstance(a.left, ast.Name) and a.left.id in (tname, vname) and isinstance(a.comparators[0], ast.Constant) and a.comparators[0].value is None for a in nn):
                return positive(b)
        return None

    def negative(e):
        if isinstance(e, ast.UnaryOp) and isinstance(e.op, ast.Not):
            return positive(e.operand)
        if isinstance(e, ast.BoolOp) and isinstance(e.op, ast.Or) and len(e.values) >= 2:
            *nones, b = e.values
            if all(isinstance(a, ast.Compare) and len(a.ops) == 1 and isinstance(a.ops[0], ast.Is) and isinstance(a.left, ast.Name) and a.left.id in (tname, vname) and isinstance(a.comparators[0], ast.Constant) and a.comparators[0].value is None for a in nones):
                return negative(b)
        return None

    types = negative(g.test)
    if types is None:
        return None
    rest = body[1:]
    if rest and isinstance(rest[-1], ast.Return):
        last = rest[-1]
        if not (last.value is None or (isinstance(last.value, ast.Constant) and not last.value.value)):
            return None  # suppressing managers are not translated
        rest = rest[:-1] + [ast.copy_location(ast.Raise(exc=None, cause=None), last)]
    elif not rest or not isinstance(rest[-1], ast.Raise):
        rest = rest + [ast.copy_location(ast.Raise(exc=None, cause=None), g)]
    if any(isinstance(n, ast.Return) for b in rest for n in ast.walk(b)):
        return None
    # attributes stored by __init__: self.<attr> = <param>
    stored = {}
    for st_ in _strip_doc(init.body):
        if isinstance(st_, (ast.Assign, ast.AnnAssign)):
            tg = st_.targets[0] if isinstance(st_, ast.Assign) else st_.target
            if isinstance(tg, ast.Attribute) and isinstance(tg.value, ast.Name) and tg.value.id == init.args.args[0].arg and isinstance(st_.value, ast.Name):
                stored[tg.attr] = st_.value.id
                continue
        return None
    return ext, init, types, selfn, tname, vname, rest, stored


def _class_cm_state(cls: ast.ClassDef):
    """A context-manager class that only *holds state*: __enter__ returns self (or nothing), __exit__ ignores its three
    exception arguments and never suppresses.  Returns (exit function, self name, exit statements, field order,
    field -> default expr | None, init | None, stored: field -> init parameter) or None."""
    meths = {n.name: n for n in cls.body if isinstance(n, (ast.FunctionDef, ast.AsyncFunctionDef))}
    ent = meths.get("__enter__") or meths.get("__aenter__")
    ext = meths.get("__exit__") or meths.get("__aexit__")
    if ent is None or ext is None or isinstance(ent, ast.AsyncFunctionDef) != isinstance(ext, ast.AsyncFunctionDef):
        return None
    alias: dict = {}
    static: set = set()
    props: dict = {}
    for nm_, m_ in list(meths.items()):
        if nm_ in ("__enter__", "__aenter__", "__exit__", "__aexit__", "__init__"):
            continue
    for st_ in cls.body:
        if isinstance(st_, (ast.FunctionDef, ast.AsyncFunctionDef)) and st_.name not in ("__enter__", "__aenter__", "__exit__", "__aexit__", "__init__"):
            decos = [ast.unparse(d) for d in st_.decorator_list]
            if decos == ["staticmethod"]:
                static.add(st_.name)
            elif decos == ["property"]:
                props.setdefault(st_.name, [None, None])[0] = st_
            elif len(decos) == 1 and decos[0] == f"{st_.name}.setter":
                props.setdefault(st_.name, [None, None])[1] = st_
            else:
                return None  # other methods could be called on the object: not a plain state holder
    for pn, (g_, s_) in props.items():
        gb = _strip_doc(g_.body) if g_ is not None else []
        if g_ is None or len(gb) != 1 or not isinstance(gb[0], ast.Return) or not (isinstance(gb[0].value, ast.Attribute) and isinstance(gb[0].value.value, ast.Name) and gb[0].value.value.id == g_.args.args[0].arg):
            return None
        fld_ = gb[0].value.attr
        if s_ is not None:
            sb_ = _strip_doc(s_.body)
            if not (len(s_.args.args) == 2 and len(sb_) == 1 and isinstance(sb_[0], ast.Assign) and len(sb_[0].targets) == 1 and isinstance(sb_[0].targets[0], ast.Attribute) and isinstance(sb_[0].targets[0].value, ast.Name) and sb_[0].targets[0].value.id == s_.args.args[0].arg and sb_[0].targets[0].attr == fld_ and isinstance(sb_[0].value, ast.Name) and sb_[0].value.id == s_.args.args[1].arg):
                return None
        alias[pn] = fld_
    eb = _strip_doc(ent.body)
    if not all(isinstance(x, ast.Pass) or (isinstance(x, ast.Return) and (x.value is None or (isinstance(x.value, ast.Name) and x.value.id == ent.args.args[0].arg) or (isinstance(x.value, ast.Constant) and x.value.value is None))) for x in eb):
        return None
    params = [x.arg for x in ext.args.args]
    if len(params) != 4 or ext.args.vararg or ext.args.kwarg:
        return None
    selfn = params[0]
    body = _strip_doc(ext.body)
    if body and isinstance(body[-1], ast.Return) and (body[-1].value is None or (isinstance(body[-1].value, ast.Constant) and not body[-1].value.value)):
        body = body[:-1]
    # a leading guard `if c: return` + rest  ->  `if not c: rest`
    if len(body) >= 2 and isinstance(body[0], ast.If) and not body[0].orelse and len(body[0].body) == 1 and isinstance(body[0].body[0], ast.Return) and (body[0].body[0].value is None or (isinstance(body[0].body[0].value, ast.Constant) and not body[0].body[0].value.value)):
        g0_ = body[0]
        body = [ast.copy_location(ast.If(test=ast.copy_location(ast.UnaryOp(op=ast.Not(), operand=g0_.test), g0_.test), body=list(body[1:]), orelse=[]), g0_)]
    for b in body:
        for n in ast.walk(b):
            if isinstance(n, ast.Return) or isinstance(n, (ast.Yield, ast.YieldFrom)):
                return None
            if isinstance(n, ast.Name) and n.id in params[1:]:
                return None  # looks at the exception: the conditional form (_class_cm)
            if isinstance(n, ast.Name) and n.id == selfn and not isinstance(getattr(n, "ctx", None), ast.Load):
                return None
    init = meths.get("__init__")
    order: list = []
    defaults: dict = {}
    stored: dict = {}
    is_dc = any((isinstance(d, ast.Name) and d.id == "dataclass") or (isinstance(d, ast.Attribute) and d.attr == "dataclass") or (isinstance(d, ast.Call) and ((isinstance(d.func, ast.Name) and d.func.id == "dataclass") or (isinstance(d.func, ast.Attribute) and d.func.attr == "dataclass"))) for d in cls.decorator_list)
    if init is not None:
        for st_ in _strip_doc(init.body):
            if isinstance(st_, (ast.Assign, ast.AnnAssign)):
                tg = st_.targets[0] if isinstance(st_, ast.Assign) else st_.target
                if isinstance(tg, ast.Attribute) and isinstance(tg.value, ast.Name) and tg.value.id == init.args.args[0].arg and isinstance(st_.value, ast.Name):
                    stored[tg.attr] = st_.value.id
                    order.append(tg.attr)
                    continue
                iparams_ = {a_.arg for a_ in init.args.args[1:] + init.args.kwonlyargs}
                if isinstance(tg, ast.Attribute) and isinstance(tg.value, ast.Name) and tg.value.id == init.args.args[0].arg and st_.value is not None and not any(isinstance(n_, (ast.Call, ast.Await, ast.Yield, ast.Lambda, ast.NamedExpr)) for n_ in ast.walk(st_.value)) and all(n_.id in iparams_ for n_ in ast.walk(st_.value) if isinstance(n_, ast.Name)):
                    # a field computed from the constructor arguments by attribute reads / comparisons only
                    stored[tg.attr] = st_.value
                    order.append(tg.attr)
                    continue
            return None
    elif is_dc:
        for st_ in cls.body:
            if isinstance(st_, ast.AnnAssign) and isinstance(st_.target, ast.Name):
                if isinstance(st_.value, ast.Call):
                    return None  # field(...) declarations
                order.append(st_.target.id)
                defaults[st_.target.id] = st_.value
            elif isinstance(st_, ast.Assign):
                return None
    else:
        return None
    # every use of self in the exit body is self.<field> (or a property that stands for one, or a static method)
    if any(f_ not in order for f_ in alias.values()):
        return None
    for b in body:
        attrs_ok = {id(n.value) for n in ast.walk(b) if isinstance(n, ast.Attribute) and isinstance(n.value, ast.Name) and n.value.id == selfn and (n.attr in order or n.attr in alias or n.attr in static)}
        for n in ast.walk(b):
            if isinstance(n, ast.Name) and n.id == selfn and id(n) not in attrs_ok:
                return None
    return ext, selfn, body, order, defaults, init, stored, alias, static, cls.name


class _FieldToLocal(ast.NodeTransformer):
    """`<obj>.<field>` -> local name (loads and stores)."""

    def __init__(self, obj: str, locals_: dict) -> None:
        self.obj, self.locals = obj, locals_

    def visit_Attribute(self, node: ast.Attribute):
        if isinstance(node.value, ast.Name) and node.value.id == self.obj and node.attr in self.locals:
            return ast.copy_location(ast.Name(id=self.locals[node.attr], ctx=node.ctx), node)
        return self.generic_visit(node)


class _Rename(ast.NodeTransformer):
    def __init__(self, ren: dict) -> None:
        self.ren = ren

    def visit_Name(self, node: ast.Name):
        if node.id in self.ren:
            return ast.copy_location(ast.Name(id=self.ren[node.id], ctx=node.ctx), node)
        return node


class _StateCMDesugar(ast.NodeTransformer):
    """`with C(a, b) as v: BODY` for a state-holding manager class C of the same module:

        __cm1_x = a ; __cm1_y = b
        try:
            BODY            (v.x -> __cm1_x)
        finally:
            <exit body>     (self.x -> __cm1_x, its own locals renamed)
        ... v.x after the block -> __cm1_x

    Only when every use of `v` in the enclosing function is `v.<field>`."""

    def __init__(self, tree: ast.Module) -> None:
        self.classes = {}
        for n in tree.body:
            if isinstance(n, ast.ClassDef):
                c = _class_cm_state(n)
                if c is not None:
                    self.classes[n.name] = c
        self.count = 0

    def _function(self, fn):
        self.generic_visit(fn)
        import copy

        own = []  # with statements of this function (not of nested defs)

        def collect(stmts):
            for s in stmts:
                if isinstance(s, (ast.FunctionDef, ast.AsyncFunctionDef, ast.ClassDef)):
                    continue
                if isinstance(s, (ast.With, ast.AsyncWith)):
                    own.append(s)
                for fld in ("body", "orelse", "finalbody"):
                    collect(getattr(s, fld, []) or [])
                for h in getattr(s, "handlers", []) or []:
                    collect(h.body)

        collect(fn.body)
        for w in own:
            if len(w.items) != 1:
                continue
            it = w.items[0]
            call = it.context_expr
            if not (isinstance(call, ast.Call) and isinstance(call.func, ast.Name) and call.func.id in self.classes):
                continue
            ext, selfn, xbody, order, defaults, init, stored, alias, static, cname_ = self.classes[call.func.id]
            if isinstance(ext, ast.AsyncFunctionDef) != isinstance(w, ast.AsyncWith):
                continue
            v = it.optional_vars.id if isinstance(it.optional_vars, ast.Name) else None
            if it.optional_vars is not None and v is None:
                continue
            # constructor arguments -> fields
            if init is not None:
                amap = _bind(init, call, skip_self=True)
                if amap is None:
                    continue
                given = {fld: (amap[prm] if isinstance(prm, str) else _Subst(amap).visit(copy.deepcopy(prm))) for fld, prm in stored.items() if not isinstance(prm, str) or prm in amap}
            else:
                if any(isinstance(a, ast.Starred) for a in call.args) or any(k.arg is None for k in call.keywords) or len(call.args) > len(order):
                    continue
                given = dict(zip(order, call.args))
                for k in call.keywords:
                    given[k.arg] = k.value
                for fld in order:
                    if fld not in given and defaults.get(fld) is not None:
                        given[fld] = defaults[fld]
            if set(given) != set(order):
                continue
            # every use of v in the function is v.<field>
            if v is not None:
                fine = {id(n.value) for n in ast.walk(fn) if isinstance(n, ast.Attribute) and isinstance(n.value, ast.Name) and n.value.id == v and (n.attr in order or n.attr in alias)}
                uses = [n for n in ast.walk(fn) if isinstance(n, ast.Name) and n.id == v and n is not it.optional_vars]
                if any(id(n) not in fine for n in uses):
                    continue
            self.count += 1
            k = self.count
            locs = {fld: f"__cm{k}_{fld}" for fld in order}
            # a field initialised from a plain name of the function that is never re-bound and never read again once
            # the field has been stored to *is* that name (the manager object adds nothing but a second handle)
            in_loop = any(isinstance(lp, (ast.For, ast.AsyncFor, ast.While)) and any(x is w for x in ast.walk(lp)) for lp in ast.walk(fn))
            fn_stores = {n.id for n in ast.walk(fn) if isinstance(n, ast.Name) and isinstance(n.ctx, ast.Store)}
            xstores = {n.attr for b in xbody for n in ast.walk(b) if isinstance(n, ast.Attribute) and isinstance(n.value, ast.Name) and n.value.id == selfn and isinstance(n.ctx, ast.Store)}
            for fld in order:
                g0 = given[fld]
                if not isinstance(g0, ast.Name) or g0.id in fn_stores or in_loop or fld in xstores:
                    continue
                if sum(1 for f2 in order if isinstance(given[f2], ast.Name) and given[f2].id == g0.id) != 1:
                    continue
                st_lines = [s_.end_lineno or s_.lineno for s_ in ast.walk(fn) if isinstance(s_, ast.stmt) and v is not None and any(isinstance(n, ast.Attribute) and isinstance(n.value, ast.Name) and n.value.id == v and alias.get(n.attr, n.attr) == fld and isinstance(n.ctx, ast.Store) for n in ast.walk(s_)) and not isinstance(s_, (ast.With, ast.AsyncWith, ast.Try, ast.If, ast.FunctionDef, ast.AsyncFunctionDef))]
                first_store = min(st_lines) if st_lines else None
                reads = [n for n in ast.walk(fn) if isinstance(n, ast.Name) and n.id == g0.id and isinstance(n.ctx, ast.Load)]
                if first_store is None or all(n.lineno <= first_store for n in reads):
                    locs[fld] = g0.id
            pre = [ast.Assign(targets=[ast.Name(id=locs[fld], ctx=ast.Store())], value=given[fld], lineno=w.lineno) for fld in order if not (isinstance(given[fld], ast.Name) and given[fld].id == locs[fld])]
            xb = [copy.deepcopy(b) for b in xbody]
            # leading `local = self.<field>` statements of the exit body: the local is the field
            direct: dict = {}
            while xb and isinstance(xb[0], ast.Assign) and len(xb[0].targets) == 1 and isinstance(xb[0].targets[0], ast.Name) and isinstance(xb[0].value, ast.Attribute) and isinstance(xb[0].value.value, ast.Name) and xb[0].value.value.id == selfn and xb[0].value.attr in order:
                nm0, f0 = xb[0].targets[0].id, xb[0].value.attr
                later_store = any(isinstance(n, ast.Name) and n.id == nm0 and isinstance(n.ctx, ast.Store) for b in xb[1:] for n in ast.walk(b))
                if later_store or f0 in xstores:
                    break
                direct[nm0] = locs[f0]
                xb = xb[1:]
            own_locals = {n.id for b in xb for n in ast.walk(b) if isinstance(n, ast.Name) and isinstance(n.ctx, ast.Store)}
            ren = {nm: f"__cm{k}_x_{nm}" for nm in own_locals}
            ren.update(direct)
            locs_all = dict(locs)
            locs_all.update({p_: locs[f_] for p_, f_ in alias.items()})
            for b in xb:
                for n in ast.walk(b):
                    if isinstance(n, ast.Attribute) and isinstance(n.value, ast.Name) and n.value.id == selfn and n.attr in static:
                        n.value = ast.copy_location(ast.Name(id=cname_, ctx=ast.Load()), n.value)
            xb = [_Rename(ren).visit(_FieldToLocal(selfn, locs_all).visit(b)) for b in xb]
            tr = ast.Try(body=w.body, handlers=[], orelse=[], finalbody=xb or [ast.Pass()])
            new = pre + [tr]
            for s in new:
                _mark(s, w)
            # splice
            self._replace(fn, w, new)
            if v is not None:
                _FieldToLocal(v, locs_all).visit(fn)
        return fn

    @staticmethod
    def _replace(fn, old, new) -> None:
        for parent in ast.walk(fn):
            for fld in ("body", "orelse", "finalbody"):
                lst = getattr(parent, fld, None)
                if isinstance(lst, list) and old in lst:
                    i = lst.index(old)
                    lst[i : i + 1] = new
                    return

    visit_FunctionDef = _function
    visit_AsyncFunctionDef = _function


def _falsy_return(r: ast.Return) -> bool:
    return r.value is None or (isinstance(r.value, ast.Constant) and not r.value.value)


def _fold_exit_returns(stmts: list):
    """Exit body without `return`: `[if c: return] + rest` -> `if c: pass / else: rest`; a trailing falsy return is
    dropped.  None when a return remains anywhere else (or one returns something truthy)."""
    import copy

    out = list(stmts)
    if out and isinstance(out[-1], ast.Return):
        if not _falsy_return(out[-1]):
            return None
        out = out[:-1]
    for i, st in enumerate(out):
        if isinstance(st, ast.If) and not st.orelse and st.body and isinstance(st.body[-1], ast.Return):
            if not _falsy_return(st.body[-1]):
                return None
            rest = _fold_exit_returns(out[i + 1 :])
            head = _fold_exit_returns(st.body)
            if rest is None or head is None:
                return None
            s2 = copy.copy(st)
            s2.body = head or [ast.copy_location(ast.Pass(), st)]
            s2.orelse = rest
            return out[:i] + [s2]
        if any(isinstance(n, ast.Return) for n in ast.walk(st)):
            return None
    return out


class _ConstTests(ast.NodeTransformer):
    """`<name> is None` / `is not None` with a known answer, and the boolean structure around it, folded."""

    def __init__(self, known: dict) -> None:
        self.known = known  # name -> True (is None) / False (is not None)

    def visit_Compare(self, node: ast.Compare):
        if len(node.ops) == 1 and isinstance(node.ops[0], (ast.Is, ast.IsNot)) and isinstance(node.left, ast.Name) and node.left.id in self.known and isinstance(node.comparators[0], ast.Constant) and node.comparators[0].value is None:
            v = self.known[node.left.id]
            return ast.copy_location(ast.Constant(value=v if isinstance(node.ops[0], ast.Is) else not v), node)
        return self.generic_visit(node)

    def visit_UnaryOp(self, node: ast.UnaryOp):
        self.generic_visit(node)
        if isinstance(node.op, ast.Not) and isinstance(node.operand, ast.Constant) and isinstance(node.operand.value, bool):
            return ast.copy_location(ast.Constant(value=not node.operand.value), node)
        return node

    def visit_BoolOp(self, node: ast.BoolOp):
        self.generic_visit(node)
        is_and = isinstance(node.op, ast.And)
        vals = []
        for v in node.values:
            if isinstance(v, ast.Constant) and isinstance(v.value, bool):
                if v.value != is_and:
                    return ast.copy_location(ast.Constant(value=v.value), node)  # decides the whole expression
                continue  # neutral element
            vals.append(v)
        if not vals:
            return ast.copy_location(ast.Constant(value=is_and), node)
        if len(vals) == 1:
            return vals[0]
        node.values = vals
        return node


def _prune_const_ifs(stmts: list) -> list:
    out = []
    for st in stmts:
        if isinstance(st, ast.If) and isinstance(st.test, ast.Constant) and isinstance(st.test.value, bool):
            out.extend(_prune_const_ifs(st.body if st.test.value else st.orelse))
            continue
        for fld in ("body", "orelse", "finalbody"):
            lst = getattr(st, fld, None)
            if isinstance(lst, list) and lst and all(isinstance(x, ast.stmt) for x in lst):
                setattr(st, fld, _prune_const_ifs(lst) or ([ast.copy_location(ast.Pass(), st)] if fld == "body" else []))
        out.append(st)
    return [s for s in out if not isinstance(s, ast.Pass)] or []


def _class_cm_general(cls: ast.ClassDef):
    """A manager class whose exit never suppresses: (exit function, self name, exit statements without returns,
    init | None, stored field -> init parameter, helper methods, static method names) or None."""
    meths = {n.name: n for n in cls.body if isinstance(n, (ast.FunctionDef, ast.AsyncFunctionDef))}
    ent = meths.get("__enter__") or meths.get("__aenter__")
    ext = meths.get("__exit__") or meths.get("__aexit__")
    if ent is None or ext is None or isinstance(ent, ast.AsyncFunctionDef) != isinstance(ext, ast.AsyncFunctionDef):
        return None
    if cls.bases or cls.keywords or cls.decorator_list:
        return None
    eb = _strip_doc(ent.body)
    if not all(isinstance(x, ast.Pass) or (isinstance(x, ast.Return) and (x.value is None or (isinstance(x.value, ast.Name) and x.value.id == ent.args.args[0].arg) or (isinstance(x.value, ast.Constant) and x.value.value is None))) for x in eb):
        return None
    params = [x.arg for x in ext.args.args]
    if len(params) != 4 or ext.args.vararg or ext.args.kwarg:
        return None
    body = _fold_exit_returns(_strip_doc(ext.body))
    if body is None:
        return None
    init = meths.get("__init__")
    stored: dict = {}
    if init is not None:
        for st_ in _strip_doc(init.body):
            if isinstance(st_, (ast.Assign, ast.AnnAssign)):
                tg = st_.targets[0] if isinstance(st_, ast.Assign) else st_.target
                if isinstance(tg, ast.Attribute) and isinstance(tg.value, ast.Name) and tg.value.id == init.args.args[0].arg and isinstance(st_.value, ast.Name):
                    stored[tg.attr] = st_.value.id
                    continue
            return None
    helpers = {}
    static = set()
    for nm, m in meths.items():
        if nm in ("__enter__", "__aenter__", "__exit__", "__aexit__", "__init__"):
            continue
        decos = [ast.unparse(d) for d in m.decorator_list]
        if decos == ["staticmethod"]:
            static.add(nm)
            continue
        if decos or len(m.args.args) != 1 or m.args.vararg or m.args.kwarg or any(isinstance(n, ast.Return) and n.value is not None for n in ast.walk(m)) or any(isinstance(n, (ast.Yield, ast.YieldFrom)) for n in ast.walk(m)):
            return None
        hb = _fold_exit_returns(_strip_doc(m.body))
        if hb is None:
            return None
        helpers[nm] = (m, hb)
    return ext, params, body, init, stored, helpers, static


class _GeneralCMDesugar(ast.NodeTransformer):
    """`with C(args): BODY` for a manager class whose exit never suppresses (whatever it does with its arguments):

        try:
            BODY
        except <T | BaseException> [as e]:
            <exit body, for "an exception left the block">      (exc_type is None -> False ...)
            raise
        else:
            <exit body, for "the block completed">               (exc_type is None -> True ...)

    Tests of the exception arguments against None are folded in each copy, constant constructor arguments (flags) are
    substituted, `issubclass(exc_type, T)` / `isinstance(exc_value, T)` guarding the whole exception copy becomes the
    clause's class.  Managers the two older translations handle never get here."""

    def __init__(self, tree: ast.Module) -> None:
        self.classes = {}
        for n in tree.body:
            if isinstance(n, ast.ClassDef):
                c = _class_cm_general(n)
                if c is not None:
                    self.classes[n.name] = c
        self.count = 0

    def _rewrite(self, node):
        self.generic_visit(node)
        import copy

        if len(node.items) != 1 or node.items[0].optional_vars is not None:
            return node
        call = node.items[0].context_expr
        if not (isinstance(call, ast.Call) and isinstance(call.func, ast.Name) and call.func.id in self.classes):
            return node
        ext, params, xbody, init, stored, helpers, static = self.classes[call.func.id]
        if isinstance(ext, ast.AsyncFunctionDef) != isinstance(node, ast.AsyncWith):
            return node
        amap = {}
        if init is not None:
            amap = _bind(init, call, skip_self=True)
            if amap is None:
                return node
        elif call.args or call.keywords:
            return node
        attrs = {attr: amap[prm] for attr, prm in stored.items() if prm in amap}
        if len(attrs) != len(stored):
            return node
        if not all(isinstance(a, (ast.Name, ast.Constant)) or (isinstance(a, ast.Attribute) and isinstance(a.value, ast.Name)) for a in attrs.values()):
            return node
        selfn, tname, vname, tbname = params
        cname = call.func.id

        class _Inl(ast.NodeTransformer):
            """`[await] self.helper()` statements -> the helper's body; self.static(...) -> C.static(...)"""

            def __init__(s2) -> None:
                s2.ok = True

            def expand(s2, stmts: list, depth: int = 0) -> list:
                out = []
                for st in stmts:
                    v = st.value if isinstance(st, ast.Expr) else None
                    if isinstance(v, ast.Await):
                        v = v.value
                    if isinstance(v, ast.Call) and isinstance(v.func, ast.Attribute) and isinstance(v.func.value, ast.Name) and v.func.value.id == selfn and v.func.attr in helpers and not v.args and not v.keywords and depth < 3:
                        m, hb = helpers[v.func.attr]
                        if isinstance(m, ast.AsyncFunctionDef) != isinstance(st.value, ast.Await):
                            s2.ok = False
                        hs = m.args.args[0].arg
                        body_ = [copy.deepcopy(b) for b in hb]
                        if hs != selfn:
                            body_ = [_Rename({hs: selfn}).visit(b) for b in body_]
                        out.extend(s2.expand(body_, depth + 1))
                        continue
                    for fld in ("body", "orelse", "finalbody"):
                        lst = getattr(st, fld, None)
                        if isinstance(lst, list) and lst and all(isinstance(x, ast.stmt) for x in lst):
                            setattr(st, fld, s2.expand(lst, depth))
                    for h_ in getattr(st, "handlers", []) or []:
                        h_.body = s2.expand(h_.body, depth)
                    out.append(st)
                return out

        inl = _Inl()
        base = inl.expand([copy.deepcopy(b) for b in xbody])
        if not inl.ok:
            return node
        # what the exit body does with its exception arguments / with self
        for b in base:
            fine_ = {id(n.value) for n in ast.walk(b) if isinstance(n, ast.Attribute) and isinstance(n.value, ast.Name) and n.value.id == selfn and (n.attr in attrs or n.attr in static) and isinstance(n.ctx, ast.Load)}
            for n in ast.walk(b):
                if isinstance(n, ast.Name) and n.id == tbname:
                    return node
                if isinstance(n, ast.Name) and n.id == selfn and id(n) not in fine_:
                    return node  # the manager object itself is used (stored to, handed on, a method the translation does not know)
        self.count += 1
        k = self.count
        exc_name = f"__cm_exc_{k}g"

        def specialise(exc: bool) -> list | None:
            body_ = [copy.deepcopy(b) for b in base]
            body_ = [_ConstTests({tname: not exc, vname: not exc}).visit(b) for b in body_]
            # constructor arguments / fields; locals of the exit body renamed
            own_locals = {n.id for b in body_ for n in ast.walk(b) if isinstance(n, ast.Name) and isinstance(n.ctx, ast.Store)}
            ren = {nm: f"__cm{k}g_{nm}" for nm in own_locals}
            names = {}
            if exc:
                names = {vname: ast.Name(id=exc_name, ctx=ast.Load()), tname: ast.Call(func=ast.Name(id="type", ctx=ast.Load()), args=[ast.Name(id=exc_name, ctx=ast.Load())], keywords=[])}
            sub_ = _Subst(names, attrs, selfn)
            body_ = [sub_.visit(_Rename(ren).visit(b)) for b in body_]
            # static methods of the manager class
            for b in body_:
                for n in ast.walk(b):
                    if isinstance(n, ast.Attribute) and isinstance(n.value, ast.Name) and n.value.id == selfn and n.attr in static:
                        n.value = ast.copy_location(ast.Name(id=cname, ctx=ast.Load()), n.value)
            body_ = [_ConstTests({}).visit(b) for b in body_]
            body_ = _prune_const_ifs(body_)
            for b in body_:
                for n in ast.walk(b):
                    if not exc and isinstance(n, ast.Name) and n.id in (tname, vname):
                        return None
            return body_

        on_exc, on_ok = specialise(True), specialise(False)
        if on_exc is None or on_ok is None:
            self.count -= 1
            return node
        # `if issubclass(type(e), T): X` as the whole exception copy -> `except T: X; raise`
        htype: ast.expr = ast.Name(id="BaseException", ctx=ast.Load())
        hname = exc_name
        if len(on_exc) == 1 and isinstance(on_exc[0], ast.If) and not on_exc[0].orelse:
            t = on_exc[0].test
            if isinstance(t, ast.Call) and isinstance(t.func, ast.Name) and len(t.args) == 2 and ((t.func.id == "issubclass" and ast.unparse(t.args[0]) == f"type({exc_name})") or (t.func.id == "isinstance" and ast.unparse(t.args[0]) == exc_name)):
                htype = t.args[1]
                on_exc = on_exc[0].body
        uses_exc = any(isinstance(n, ast.Name) and n.id == exc_name for b in on_exc for n in ast.walk(b))
        h = ast.ExceptHandler(type=htype, name=hname if uses_exc else None, body=on_exc + [ast.Raise(exc=None, cause=None)])
        new = ast.Try(body=node.body, handlers=[h], orelse=on_ok, finalbody=[])
        return _mark(new, node)

    visit_With = _rewrite
    visit_AsyncWith = _rewrite


class _CMDesugar(ast.NodeTransformer):
    def __init__(self, tree: ast.Module) -> None:
        self.gens = {}
        self.plain = {}
        self.classes = {}
        self.mgens = {}  # generator-based managers that are methods: name -> (function, try) when the name is unique
        for n in tree.body:
            if isinstance(n, (ast.FunctionDef, ast.AsyncFunctionDef)):
                t = _generator_cm(n)
                if t is not None:
                    self.gens[n.name] = (n, t)
                elif _plain_generator_cm(n) is not None:
                    self.plain[n.name] = (n, _plain_generator_cm(n))
            elif isinstance(n, ast.ClassDef):
                c = _class_cm(n)
                if c is not None:
                    self.classes[n.name] = c
                for m in n.body:
                    if isinstance(m, (ast.FunctionDef, ast.AsyncFunctionDef)) and m.args.args:
                        t = _generator_cm(m)
                        if t is not None:
                            self.mgens[m.name] = None if m.name in self.mgens else (m, t)
        self.mgens = {k: v for k, v in self.mgens.items() if v is not None}
        self.count = 0

    def _rewrite(self, node):
        self.generic_visit(node)
        import copy

        if len(node.items) == 1 and isinstance(node.items[0].optional_vars, ast.Name) and isinstance(node.items[0].context_expr, ast.Call) and isinstance(node.items[0].context_expr.func, ast.Name) and node.items[0].context_expr.func.id in self.plain:
            got = self._plain(node, copy)
            if got is not None:
                return got
        if len(node.items) != 1 or node.items[0].optional_vars is not None:
            return node
        call = node.items[0].context_expr

        if isinstance(call, ast.Call) and isinstance(call.func, ast.Attribute) and isinstance(call.func.value, ast.Name) and call.func.value.id in ("self", "cls") and call.func.attr in self.mgens:
            # `with self.manager(args):` - a generator-based manager that is a method of the class
            fn, t = self.mgens[call.func.attr]
            if isinstance(fn, ast.AsyncFunctionDef) != isinstance(node, ast.AsyncWith):
                return node
            amap = _bind(fn, call, skip_self=True)
            if amap is None:
                return node
            amap = dict(amap)
            if fn.args.args[0].arg != call.func.value.id:
                amap[fn.args.args[0].arg] = call.func.value
            sub = _Subst(amap)
            handlers = []
            for h in t.handlers:
                h2 = copy.deepcopy(h)
                if h2.type is not None:
                    h2.type = sub.visit(h2.type)
                h2.body = [sub.visit(b) for b in h2.body]
                handlers.append(h2)
            final = [sub.visit(copy.deepcopy(b)) for b in t.finalbody]
            new = ast.Try(body=node.body, handlers=handlers, orelse=[], finalbody=final)
            self.count += 1
            return _mark(new, node)
        if not (isinstance(call, ast.Call) and isinstance(call.func, ast.Name)):
            return node
        if call.func.id in self.gens and isinstance(node, ast.AsyncWith) == isinstance(self.gens[call.func.id][0], ast.AsyncFunctionDef):
            fn, t = self.gens[call.func.id]
            amap = _bind(fn, call)
            if amap is None:
                return node
            sub = _Subst(amap)
            handlers = []
            for h in t.handlers:
                h2 = copy.deepcopy(h)
                if h2.type is not None:
                    h2.type = sub.visit(h2.type)
                h2.body = [sub.visit(b) for b in h2.body]
                handlers.append(h2)
            final = [sub.visit(copy.deepcopy(b)) for b in t.finalbody]
            new = ast.Try(body=node.body, handlers=handlers, orelse=[], finalbody=final)
            self.count += 1
            return _mark(new, node)
        if call.func.id in self.plain:
            got = self._plain(node, copy)
            return got if got is not None else node
        if call.func.id in self.classes:
            ext, init, types, selfn, tname, vname, rest, stored = self.classes[call.func.id]
            if isinstance(ext, ast.AsyncFunctionDef) != isinstance(node, ast.AsyncWith):
                return node
            amap = _bind(init, call, skip_self=True)
            if amap is None:
                return node
            attrs = {attr: amap[prm] for attr, prm in stored.items() if prm in amap}
            if len(attrs) != len(stored):
                return node
            self.count += 1
            exc_name = f"__cm_exc_{self.count}"
            names = {vname: ast.Name(id=exc_name, ctx=ast.Load()), tname: ast.Call(func=ast.Name(id="type", ctx=ast.Load()), args=[ast.Name(id=exc_name, ctx=ast.Load())], keywords=[])}
            sub = _Subst(names, attrs, selfn)
            body = [sub.visit(copy.deepcopy(b)) for b in rest]
            h = ast.ExceptHandler(type=sub.visit(copy.deepcopy(types)), name=exc_name, body=body)
            new = ast.Try(body=node.body, handlers=[h], orelse=[], finalbody=[])
            return _mark(new, node)
        return node

    def _plain(self, node, copy):
        call = node.items[0].context_expr
        var = node.items[0].optional_vars
        fn, (pre, post, yv, trynode) = self.plain[call.func.id]
        if isinstance(node, ast.AsyncWith) != isinstance(fn, ast.AsyncFunctionDef):
            return None
        if var is not None and yv is None:
            return None
        amap = _bind(fn, call)
        if amap is None or not all(_pure_arg(a) for a in amap.values()):
            return None
        # the arguments must not be re-bound by the with-body (they are read again after it)
        arg_names = {n.id for a in amap.values() for n in ast.walk(a) if isinstance(n, ast.Name)}
        if any(isinstance(n, ast.Name) and n.id in arg_names and isinstance(n.ctx, (ast.Store, ast.Del)) for b in node.body for n in ast.walk(b)):
            return None
        self.count += 1
        tparts = (list(trynode.finalbody) + [b for h in trynode.handlers for b in h.body]) if trynode is not None else []
        own = {n.id for b in pre + post + tparts for n in ast.walk(b) if isinstance(n, ast.Name) and isinstance(n.ctx, ast.Store)}
        own |= {h.name for h in (trynode.handlers if trynode is not None else []) if h.name}
        own |= {n.id for g_ in ([yv] if yv is not None else []) for n in ast.walk(g_) if isinstance(n, ast.Name) and isinstance(n.ctx, ast.Store)}
        ren = {nm: f"__cm{self.count}p_{nm}" for nm in own}
        sub = _Subst(amap)

        def tr(b):
            return sub.visit(_Rename(ren).visit(copy.deepcopy(b)))

        mid = []
        if yv is not None:
            v2 = tr(yv)
            mid = [ast.copy_location(ast.Assign(targets=[copy.deepcopy(var)], value=v2) if var is not None else ast.Expr(value=v2), node)]
        inner = mid + list(node.body)
        if trynode is not None:
            handlers = []
            for h in trynode.handlers:
                h2 = copy.deepcopy(h)
                if h2.type is not None:
                    h2.type = tr(h2.type)
                if h2.name and h2.name in ren:
                    h2.name = ren[h2.name]
                h2.body = [tr(b) for b in h.body]
                handlers.append(h2)
            inner = [ast.copy_location(ast.Try(body=inner, handlers=handlers, orelse=[], finalbody=[tr(b) for b in trynode.finalbody]), node)]
        out = [tr(b) for b in pre] + inner + [tr(b) for b in post]
        for b in out:
            ast.fix_missing_locations(b)
        return out

    visit_With = _rewrite
    visit_AsyncWith = _rewrite


def _getter_constants(tree: ast.Module) -> bool:
    """Module-level `NAME = attrgetter("a", "b")` / `operator.itemgetter(k)`  ->  `def NAME(obj): return (obj.a, obj.b)`.

    The constant is a pure accessor function; written as a def it is resolved, called, written out and evaluated like
    any other private helper (also when it is handed to a helper as an argument)."""
    names: dict[str, str] = {}  # local name -> "attrgetter" | "itemgetter"
    opmods: set[str] = set()
    for st in tree.body:
        if isinstance(st, ast.ImportFrom) and st.module == "operator" and not st.level:
            for a in st.names:
                if a.name in ("attrgetter", "itemgetter"):
                    names[a.asname or a.name] = a.name
        elif isinstance(st, ast.Import):
            for a in st.names:
                if a.name == "operator":
                    opmods.add(a.asname or "operator")
    if not names and not opmods:
        return False
    changed = False

    def _is_getter(v) -> str | None:
        if isinstance(v, ast.Call) and not v.keywords and len(v.args) == 1 and isinstance(v.args[0], ast.Constant) and isinstance(v.args[0].value, str) and v.args[0].value.isidentifier():
            fn_ = v.func
            k_ = names.get(fn_.id) if isinstance(fn_, ast.Name) else fn_.attr if isinstance(fn_, ast.Attribute) and isinstance(fn_.value, ast.Name) and fn_.value.id in opmods else None
            if k_ == "attrgetter":
                return v.args[0].value
        return None

    # a table of accessors, `T = {key: attrgetter("A"), ...}`, used only as `T[k](obj)`:  a table of attribute names
    # and `getattr(obj, T[k])` at the uses
    for st in tree.body:
        tg = st.targets[0] if isinstance(st, ast.Assign) and len(st.targets) == 1 else st.target if isinstance(st, ast.AnnAssign) and st.value is not None else None
        if not (isinstance(tg, ast.Name) and isinstance(st.value, ast.Dict) and st.value.values and all(k is not None for k in st.value.keys)):
            continue
        attrs_ = [_is_getter(v) for v in st.value.values]
        if any(a is None for a in attrs_):
            continue
        tname = tg.id
        uses = [n for n in ast.walk(tree) if isinstance(n, ast.Name) and n.id == tname and isinstance(n.ctx, ast.Load)]
        calls = [n for n in ast.walk(tree) if isinstance(n, ast.Call) and isinstance(n.func, ast.Subscript) and isinstance(n.func.value, ast.Name) and n.func.value.id == tname and len(n.args) == 1 and not n.keywords and not isinstance(n.args[0], ast.Starred)]
        if not uses or len(uses) != len(calls) or {id(c.func.value) for c in calls} != {id(u) for u in uses}:
            continue
        st.value.values = [ast.copy_location(ast.Constant(value=a), v) for a, v in zip(attrs_, st.value.values)]
        for c in calls:
            sub_ = c.func
            c.func = ast.copy_location(ast.Name(id="getattr", ctx=ast.Load()), sub_)
            c.args = [c.args[0], sub_]
        changed = True
    for i, st in enumerate(tree.body):
        if isinstance(st, ast.Assign) and len(st.targets) == 1 and isinstance(st.targets[0], ast.Name):
            tgt, val = st.targets[0].id, st.value
        elif isinstance(st, ast.AnnAssign) and isinstance(st.target, ast.Name) and st.value is not None:
            tgt, val = st.target.id, st.value
        else:
            continue
        if not (isinstance(val, ast.Call) and not val.keywords and val.args and all(isinstance(a, ast.Constant) for a in val.args)):
            continue
        fn = val.func
        kind = names.get(fn.id) if isinstance(fn, ast.Name) else fn.attr if isinstance(fn, ast.Attribute) and isinstance(fn.value, ast.Name) and fn.value.id in opmods and fn.attr in ("attrgetter", "itemgetter") else None
        if kind is None:
            continue
        if kind == "attrgetter" and not all(isinstance(a.value, str) and all(p.isidentifier() for p in a.value.split(".")) for a in val.args):
            continue

        def access(a: ast.Constant) -> ast.expr:
            base: ast.expr = ast.Name(id="__obj", ctx=ast.Load())
            if kind == "attrgetter":
                for part in a.value.split("."):
                    base = ast.Attribute(value=base, attr=part, ctx=ast.Load())
                return base
            return ast.Subscript(value=base, slice=ast.Constant(value=a.value), ctx=ast.Load())

        elts = [access(a) for a in val.args]
        ret = elts[0] if len(elts) == 1 else ast.Tuple(elts=elts, ctx=ast.Load())
        fd = ast.FunctionDef(
            name=tgt,
            args=ast.arguments(posonlyargs=[], args=[ast.arg(arg="__obj")], vararg=None, kwonlyargs=[], kw_defaults=[], kwarg=None, defaults=[]),
            body=[ast.Return(value=ret)],
            decorator_list=[],
            returns=None,
            type_comment=None,
            type_params=[],
        )
        ast.copy_location(fd, st)
        for n in ast.walk(fd):
            if not hasattr(n, "lineno"):
                ast.copy_location(n, st)
        fd.end_lineno = getattr(st, "end_lineno", st.lineno)
        tree.body[i] = fd
        changed = True
    return changed


class _NestedGenDesugar(ast.NodeTransformer):
    """A nested generator function that is one filtering loop over its parameter and is called once:

        def pick(keys):                                   (E for k in ARG if not c)
            for k in keys:
                if c: continue            ->
                yield E
        ... pick(ARG) ...

    The generator expression evaluates ARG at the same moment the call did and yields the same elements."""

    def __init__(self) -> None:
        self.count = 0

    def _function(self, fn):
        self.generic_visit(fn)
        import copy

        for g in [s for s in fn.body if isinstance(s, ast.FunctionDef) and not s.decorator_list]:
            a = g.args
            if len(a.args) != 1 or a.vararg or a.kwarg or a.kwonlyargs or a.defaults:
                continue
            body = _strip_doc(g.body)
            if len(body) != 1 or not isinstance(body[0], ast.For) or body[0].orelse or not isinstance(body[0].iter, ast.Name) or body[0].iter.id != a.args[0].arg:
                continue
            lp = body[0]
            lb = list(lp.body)
            ifs = []
            while lb and isinstance(lb[0], ast.If) and not lb[0].orelse and len(lb[0].body) == 1 and isinstance(lb[0].body[0], ast.Continue):
                ifs.append(ast.copy_location(ast.UnaryOp(op=ast.Not(), operand=lb[0].test), lb[0].test))
                lb = lb[1:]
            if len(lb) == 1 and isinstance(lb[0], ast.If) and not lb[0].orelse and len(lb[0].body) == 1:
                ifs.append(lb[0].test)
                lb = lb[0].body
            if len(lb) != 1 or not (isinstance(lb[0], ast.Expr) and isinstance(lb[0].value, ast.Yield) and lb[0].value.value is not None):
                continue
            if any(isinstance(n, (ast.Yield, ast.YieldFrom, ast.Await, ast.Return)) for t_ in ifs for n in ast.walk(t_)):
                continue
            uses = [n for n in ast.walk(fn) if isinstance(n, ast.Name) and n.id == g.name and isinstance(n.ctx, ast.Load)]
            calls = [n for n in ast.walk(fn) if isinstance(n, ast.Call) and isinstance(n.func, ast.Name) and n.func.id == g.name and len(n.args) == 1 and not n.keywords and not isinstance(n.args[0], ast.Starred)]
            if len(uses) != 1 or len(calls) != 1 or uses[0] is not calls[0].func:
                continue
            if any(n is calls[0] for n in ast.walk(g)):
                continue
            c = calls[0]
            ge = ast.GeneratorExp(elt=lb[0].value.value, generators=[ast.comprehension(target=lp.target, iter=c.args[0], ifs=ifs, is_async=0)])
            ast.copy_location(ge, c)
            for n in ast.walk(ge):
                if not hasattr(n, "lineno"):
                    ast.copy_location(n, c)

            class _Sw(ast.NodeTransformer):
                def visit_Call(s2, node):
                    if node is c:
                        return ge
                    return s2.generic_visit(node)

                def visit_FunctionDef(s2, node):
                    return node if node is g else s2.generic_visit(node)

            fn.body = [s for s in fn.body if s is not g]
            _Sw().visit(fn)
            self.count += 1
        return fn

    visit_FunctionDef = _function
    visit_AsyncFunctionDef = _function


def _partial_names(tree: ast.Module) -> tuple[set, set]:
    names, mods = set(), set()
    for st in tree.body:
        if isinstance(st, ast.ImportFrom) and st.module == "functools" and not st.level:
            for a in st.names:
                if a.name == "partial":
                    names.add(a.asname or a.name)
        elif isinstance(st, ast.Import):
            for a in st.names:
                if a.name == "functools":
                    mods.add(a.asname or "functools")
    return names, mods


def _is_partial_call(e, names: set, mods: set) -> bool:
    return isinstance(e, ast.Call) and ((isinstance(e.func, ast.Name) and e.func.id in names) or (isinstance(e.func, ast.Attribute) and e.func.attr == "partial" and isinstance(e.func.value, ast.Name) and e.func.value.id in mods))


def _partial_constants(tree: ast.Module) -> bool:
    """Module-level callables made by partial application, written out at their call sites:

        FMT = "Failed to {} file: {}".format ; READ = partial(FMT, "read") ; READ(err)   ->   f"Failed to {'read'} file: {err}"
        G = partial(F, 1)                     ; G(x)                                       ->   F(1, x)

    Only positional arguments, only names bound once at module level, only inside the defining module."""
    names, mods = _partial_names(tree)
    fmt: dict = {}  # NAME -> template string
    par: dict = {}  # NAME -> (callee expr, [bound args])
    bound_once: dict = {}
    for st in tree.body:
        tg = st.targets[0] if isinstance(st, ast.Assign) and len(st.targets) == 1 else st.target if isinstance(st, ast.AnnAssign) and st.value is not None else None
        if isinstance(tg, ast.Name):
            bound_once[tg.id] = bound_once.get(tg.id, 0) + 1
    for st in tree.body:
        tg = st.targets[0] if isinstance(st, ast.Assign) and len(st.targets) == 1 else st.target if isinstance(st, ast.AnnAssign) and st.value is not None else None
        if not isinstance(tg, ast.Name) or bound_once.get(tg.id) != 1:
            continue
        v = st.value
        if isinstance(v, ast.Attribute) and v.attr == "format" and isinstance(v.value, ast.Constant) and isinstance(v.value.value, str):
            fmt[tg.id] = v.value.value
        elif _is_partial_call(v, names, mods) and v.args and not v.keywords and not any(isinstance(a, ast.Starred) for a in v.args) and all(isinstance(a, (ast.Constant, ast.Name)) for a in v.args[1:]) and isinstance(v.args[0], ast.Name):
            par[tg.id] = (v.args[0], list(v.args[1:]))
    if not fmt and not par:
        return False
    import copy
    import string

    changed = [False]

    class _Calls(ast.NodeTransformer):
        def visit_Call(self, node: ast.Call):
            self.generic_visit(node)
            for _ in range(4):
                if isinstance(node.func, ast.Name) and node.func.id in par and not node.keywords and not any(isinstance(a, ast.Starred) for a in node.args):
                    callee, bound = par[node.func.id]
                    node = ast.copy_location(ast.Call(func=copy.deepcopy(callee), args=[copy.deepcopy(b) for b in bound] + list(node.args), keywords=[]), node)
                    changed[0] = True
                    continue
                break
            if isinstance(node.func, ast.Name) and node.func.id in fmt and not node.keywords and not any(isinstance(a, ast.Starred) for a in node.args):
                parts = list(string.Formatter().parse(fmt[node.func.id]))
                if all(fld in (None, "") and not spec and conv is None for _lit, fld, spec, conv in parts) and sum(1 for p_ in parts if p_[1] is not None) == len(node.args):
                    vals: list = []
                    it = iter(node.args)
                    for lit, fld, _spec, _conv in parts:
                        if lit:
                            vals.append(ast.Constant(value=lit))
                        if fld is not None:
                            vals.append(ast.FormattedValue(value=next(it), conversion=-1, format_spec=None))
                    js = ast.copy_location(ast.JoinedStr(values=vals), node)
                    for ch in ast.walk(js):
                        if not hasattr(ch, "lineno"):
                            ast.copy_location(ch, node)
                    changed[0] = True
                    return js
            return node

    _Calls().visit(tree)
    return changed[0]


class _PartialMethodDesugar(ast.NodeTransformer):
    """`x = partial(self.m, a, b)` in a method, m a method of the same class without further parameters to fill in:
    a nested function with the body of m written out (parameters replaced by the bound arguments) - the closure the
    partial object stands for.

        self._cancel_save = partial(self._cancel, task)      async def __partial1():
                                                       ->        <body of _cancel with its parameter := task>
                                                             self._cancel_save = __partial1
    """

    def __init__(self, tree: ast.Module) -> None:
        self.names, self.mods = _partial_names(tree)
        self.count = 0
        self.cls_stack: list = []

    def visit_ClassDef(self, node: ast.ClassDef):
        self.cls_stack.append(node)
        self.generic_visit(node)
        self.cls_stack.pop()
        return node

    def _function(self, fn):
        self.generic_visit(fn)
        if not self.cls_stack or not (self.names or self.mods):
            return fn
        cls = self.cls_stack[-1]
        import copy

        new_body = []
        for st in fn.body:
            v = st.value if isinstance(st, (ast.Assign, ast.AnnAssign)) else None
            done = False
            if v is not None and _is_partial_call(v, self.names, self.mods) and v.args and not v.keywords and isinstance(v.args[0], ast.Attribute) and isinstance(v.args[0].value, ast.Name) and v.args[0].value.id in ("self", "cls") and all(isinstance(a, ast.Name) for a in v.args[1:]):
                m = next((x for x in cls.body if isinstance(x, (ast.FunctionDef, ast.AsyncFunctionDef)) and x.name == v.args[0].attr), None)
                if m is not None and not m.args.vararg and not m.args.kwarg and not m.args.kwonlyargs:
                    decos = [d.id if isinstance(d, ast.Name) else None for d in m.decorator_list]
                    static = decos == ["staticmethod"]
                    plain = decos == []
                    params = [a.arg for a in m.args.args]
                    if (static or plain) and not any(isinstance(n, ast.Return) and n.value is not None for n in ast.walk(m)):
                        own = params if static else params[1:]
                        if len(own) == len(v.args) - 1:
                            ren = dict(zip(own, [a.id for a in v.args[1:]]))
                            if plain and params:
                                ren[params[0]] = v.args[0].value.id
                            locals_ = {n.id for n in ast.walk(m) if isinstance(n, ast.Name) and isinstance(n.ctx, ast.Store)}
                            if not (locals_ & set(ren.values())):
                                self.count += 1
                                nm = f"__partial{self.count}"
                                body = [_Rename(ren).visit(copy.deepcopy(b)) for b in _strip_doc(m.body)] or [ast.Pass()]
                                kind = ast.AsyncFunctionDef if isinstance(m, ast.AsyncFunctionDef) else ast.FunctionDef
                                fd = kind(name=nm, args=ast.arguments(posonlyargs=[], args=[], vararg=None, kwonlyargs=[], kw_defaults=[], kwarg=None, defaults=[]), body=body, decorator_list=[], returns=None, type_comment=None, type_params=[])
                                ast.copy_location(fd, st)
                                st2 = copy.copy(st)
                                st2.value = ast.copy_location(ast.Name(id=nm, ctx=ast.Load()), v)
                                new_body += [fd, st2]
                                done = True
            if not done:
                new_body.append(st)
        fn.body = new_body
        return fn

    visit_FunctionDef = _function
    visit_AsyncFunctionDef = _function


class _ExitStackDesugar(ast.NodeTransformer):
    """`async with AsyncExitStack() as stack:` whose callbacks are registered by top-level statements of the block.

        async with AsyncExitStack() as stack:        PRE
            PRE                                       try:
            stack.push_async_callback(cb, a)    ->        BODY
            BODY                                      except BaseException:
            stack.pop_all()                               await cb(a)
            POST                                          raise
                                                      POST
    Without `pop_all()` the callback runs on every exit: `try: BODY POST finally: await cb(a)`.  Several registrations
    nest (last registered runs first).  Any other use of the stack object (handed to a call, `enter_async_context`,
    registrations inside branches or loops) is left alone - the rules that meet it say that they do not model it."""

    STACKS = ("AsyncExitStack", "ExitStack")
    PUSH = {"push_async_callback": True, "callback": False}

    def __init__(self) -> None:
        self.count = 0

    def _rewrite(self, node):
        if len(node.items) != 1:
            return None
        it = node.items[0]
        ce = it.context_expr
        if not (isinstance(ce, ast.Call) and not ce.args and not ce.keywords and isinstance(it.optional_vars, ast.Name)):
            return None
        nm = ce.func.id if isinstance(ce.func, ast.Name) else ce.func.attr if isinstance(ce.func, ast.Attribute) else None
        if nm not in self.STACKS:
            return None
        sv = it.optional_vars.id

        def kind(st):
            """('push', call, is_async) | ('pop',) | ('plain',) | None (unsupported use of the stack)."""
            uses = [n for n in ast.walk(st) if isinstance(n, ast.Name) and n.id == sv]
            if not uses:
                return ("plain",)
            if isinstance(st, ast.Expr) and isinstance(st.value, ast.Call) and isinstance(st.value.func, ast.Attribute) and isinstance(st.value.func.value, ast.Name) and st.value.func.value.id == sv and len(uses) == 1:
                c = st.value
                if c.func.attr in self.PUSH and c.args and not c.keywords:
                    return ("push", c, self.PUSH[c.func.attr])
                if c.func.attr == "pop_all" and not c.args and not c.keywords:
                    return ("pop",)
            return None

        kinds = [kind(st) for st in node.body]
        if any(k is None for k in kinds):
            return None
        if sum(1 for k in kinds if k[0] == "pop") > 1:
            return None

        def build(i: int) -> list:
            """Statements for node.body[i:], with the callbacks registered before i already wrapped around."""
            out: list = []
            while i < len(node.body):
                k = kinds[i]
                st = node.body[i]
                if k[0] == "plain":
                    out.append(st)
                    i += 1
                    continue
                if k[0] == "pop":
                    raise _PopHere(i)
                # push: everything after it is protected by the callback
                c, is_async = k[1], k[2]
                cb_call: ast.expr = ast.Call(func=c.args[0], args=list(c.args[1:]), keywords=[])
                if is_async:
                    cb_call = ast.Await(value=cb_call)
                cb_stmt = ast.Expr(value=cb_call)
                try:
                    inner = build(i + 1)
                    tr = ast.Try(body=inner or [ast.Pass()], handlers=[], orelse=[], finalbody=[cb_stmt])
                    out.append(tr)
                    return out
                except _PopHere as ph:
                    # released at ph.i: callbacks run only if an exception leaves the statements before it
                    prot = build_until(i + 1, ph.i)
                    h = ast.ExceptHandler(type=ast.Name(id="BaseException", ctx=ast.Load()), name=None, body=[cb_stmt, ast.Raise(exc=None, cause=None)])
                    out.append(ast.Try(body=prot or [ast.Pass()], handlers=[h], orelse=[], finalbody=[]))
                    rest_kinds = kinds[ph.i + 1 :]
                    if any(k2[0] != "plain" for k2 in rest_kinds):
                        raise _Unsupported from None
                    out.extend(node.body[ph.i + 1 :])
                    return out
            return out

        def build_until(i: int, stop: int) -> list:
            out: list = []
            while i < stop:
                k = kinds[i]
                if k[0] == "plain":
                    out.append(node.body[i])
                    i += 1
                    continue
                if k[0] == "push":
                    c, is_async = k[1], k[2]
                    cb_call: ast.expr = ast.Call(func=c.args[0], args=list(c.args[1:]), keywords=[])
                    if is_async:
                        cb_call = ast.Await(value=cb_call)
                    h = ast.ExceptHandler(type=ast.Name(id="BaseException", ctx=ast.Load()), name=None, body=[ast.Expr(value=cb_call), ast.Raise(exc=None, cause=None)])
                    out.append(ast.Try(body=build_until(i + 1, stop) or [ast.Pass()], handlers=[h], orelse=[], finalbody=[]))
                    return out
                raise _Unsupported
            return out

        try:
            try:
                new = build(0)
            except _PopHere as ph:
                # pop_all() before any registration: nothing to run
                new = [s for j, s in enumerate(node.body) if j != ph.i]
                if any(kinds[j][0] != "plain" for j in range(len(kinds)) if j != ph.i):
                    return None
        except _Unsupported:
            return None
        for s in new:
            for n in ast.walk(s):
                if not hasattr(n, "lineno"):
                    ast.copy_location(n, node)
        self.count += 1
        return new or [ast.copy_location(ast.Pass(), node)]

    def visit_AsyncWith(self, node):
        self.generic_visit(node)
        r = self._rewrite(node)
        return r if r is not None else node

    visit_With = visit_AsyncWith


class _PopHere(Exception):
    def __init__(self, i: int) -> None:
        self.i = i


class _Unsupported(Exception):
    pass


def desugar(tree: ast.Module) -> ast.Module:
    changed = _getter_constants(tree)
    if any(isinstance(n, ast.Yield) for n in ast.walk(tree)):
        ng = _NestedGenDesugar()
        tree = ng.visit(tree)
        changed = changed or ng.count > 0
    if "partial" in {n.attr if isinstance(n, ast.Attribute) else getattr(n, "id", None) for n in ast.walk(tree) if isinstance(n, (ast.Name, ast.Attribute))}:
        changed = _partial_constants(tree) or changed
        pm = _PartialMethodDesugar(tree)
        tree = pm.visit(tree)
        changed = changed or pm.count > 0
    if any(isinstance(n, (ast.With, ast.AsyncWith)) and any(isinstance(c, ast.Call) and isinstance(c.func, (ast.Name, ast.Attribute)) and (c.func.id if isinstance(c.func, ast.Name) else c.func.attr) in _ExitStackDesugar.STACKS for it in n.items for c in [it.context_expr]) for n in ast.walk(tree)):
        es = _ExitStackDesugar()
        tree = es.visit(tree)
        changed = changed or es.count > 0
    if any(isinstance(n, (ast.Match, ast.AnnAssign)) or (isinstance(n, ast.Return) and isinstance(n.value, ast.IfExp)) for n in ast.walk(tree)):
        tree = _Desugar().visit(tree)
        changed = True
    if any(isinstance(n, (ast.With, ast.AsyncWith)) for n in ast.walk(tree)):
        sc = _StateCMDesugar(tree)
        if sc.classes:
            tree = sc.visit(tree)
            changed = changed or sc.count > 0
        cm = _CMDesugar(tree)
        if cm.gens or cm.classes or cm.mgens or cm.plain:
            tree = cm.visit(tree)
            changed = changed or cm.count > 0
        gm = _GeneralCMDesugar(tree)
        if gm.classes:
            tree = gm.visit(tree)
            changed = changed or gm.count > 0
    if changed:
        ast.fix_missing_locations(tree)
    return tree
