"""Source-level normalisation applied once when a module is parsed.

`match` statements with the simple pattern kinds (value, singleton, class without sub-patterns, wildcard, capture,
or-patterns, guards) are rewritten into the if / elif chain they mean, so that every analysis sees one statement form.
Sub-expressions keep their original nodes (and positions: typed facts stay addressable); the tests that are
synthesised carry `_synthetic = True`.  A pattern kind outside this fragment (sequence / mapping patterns, class
patterns with sub-patterns) is left as a `match` statement - the analyses then report it as not modelled.
"""

from __future__ import annotations

import ast


def _mark(n: ast.AST, like: ast.AST) -> ast.AST:
    ast.copy_location(n, like)
    n._synthetic = True  # type: ignore[attr-defined]
    for ch in ast.walk(n):
        if not hasattr(ch, "lineno") and isinstance(ch, (ast.expr, ast.stmt)):
            ast.copy_location(ch, like)
    return n


def _pattern_test(pat: ast.pattern, subject: ast.expr):
    """(test expr | None for 'always', bindings [(name, expr)]) or raises NotImplementedError."""
    if isinstance(pat, ast.MatchValue):
        return _mark(ast.Compare(left=subject, ops=[ast.Eq()], comparators=[pat.value]), pat), []
    if isinstance(pat, ast.MatchSingleton):
        return _mark(ast.Compare(left=subject, ops=[ast.Is()], comparators=[ast.Constant(value=pat.value)]), pat), []
    if isinstance(pat, ast.MatchClass) and not pat.patterns and not pat.kwd_patterns:
        return _mark(ast.Call(func=ast.Name(id="isinstance", ctx=ast.Load()), args=[subject, pat.cls], keywords=[]), pat), []
    if isinstance(pat, ast.MatchAs):
        if pat.pattern is None:
            return None, ([(pat.name, subject)] if pat.name else [])
        t, b = _pattern_test(pat.pattern, subject)
        return t, b + ([(pat.name, subject)] if pat.name else [])
    if isinstance(pat, ast.MatchOr):
        tests = []
        for p in pat.patterns:
            t, b = _pattern_test(p, subject)
            if b:
                raise NotImplementedError
            if t is None:
                return None, []
            tests.append(t)
        return _mark(ast.BoolOp(op=ast.Or(), values=tests), pat), []
    raise NotImplementedError


class _Desugar(ast.NodeTransformer):
    _fdepth = 0

    def visit_FunctionDef(self, node):
        self._fdepth += 1
        try:
            return self.generic_visit(node)
        finally:
            self._fdepth -= 1

    visit_AsyncFunctionDef = visit_FunctionDef

    def visit_ClassDef(self, node):
        saved, self._fdepth = self._fdepth, 0  # a class body inside a function is not function scope
        try:
            return self.generic_visit(node)
        finally:
            self._fdepth = saved

    def visit_AnnAssign(self, node: ast.AnnAssign):
        """Inside a function `x: T = v` is `x = v`: annotations of function-scope targets are never evaluated.  The
        annotation stays available as `_annotation` (interface types are read from it)."""
        self.generic_visit(node)
        if self._fdepth and node.value is not None:
            new = ast.Assign(targets=[node.target], value=node.value)
            new._annotation = node.annotation  # type: ignore[attr-defined]
            return _mark(new, node)
        return node

    def visit_Return(self, node: ast.Return):
        """`return a if c else b`  ==  `if c: return a` / `else: return b` (same evaluation order, one arm evaluated):
        the analyses see the statement form."""
        self.generic_visit(node)
        v = node.value
        if isinstance(v, ast.IfExp):
            return _mark(ast.If(test=v.test, body=[self.visit_Return(_mark(ast.Return(value=v.body), node))], orelse=[self.visit_Return(_mark(ast.Return(value=v.orelse), node))]), node)
        return node

    def __init__(self) -> None:
        self.count = 0

    def visit_Match(self, node: ast.Match):
        self.generic_visit(node)
        pre: list[ast.stmt] = []
        subject = node.subject
        if not isinstance(subject, ast.Name):
            self.count += 1
            tmp = f"__match_subject_{self.count}"
            pre.append(_mark(ast.Assign(targets=[ast.Name(id=tmp, ctx=ast.Store())], value=subject), node))
            subject = _mark(ast.Name(id=tmp, ctx=ast.Load()), node)
        try:
            branches = []
            for case in node.cases:
                sub = ast.Name(id=subject.id, ctx=ast.Load())
                ast.copy_location(sub, case.pattern)
                t, binds = _pattern_test(case.pattern, sub)
                body = list(case.body)
                if binds:
                    body = [_mark(ast.Assign(targets=[ast.Name(id=n, ctx=ast.Store())], value=e), case.pattern) for n, e in binds] + body
                    if case.guard is not None:
                        raise NotImplementedError  # a guard that reads the capture would need the binding first
                test = t
                if case.guard is not None:
                    test = case.guard if test is None else _mark(ast.BoolOp(op=ast.And(), values=[test, case.guard]), case.pattern)
                branches.append((test, body, case))
        except NotImplementedError:
            return node
        # build the chain from the back
        orelse: list[ast.stmt] = []
        for test, body, case in reversed(branches):
            if test is None:
                orelse = body
            else:
                orelse = [_mark(ast.If(test=test, body=body, orelse=orelse), case.pattern)]
        if not orelse:
            orelse = [_mark(ast.Pass(), node)]
        return pre + orelse


# ---------------------------------------------------------------------------
# exception-translating context managers defined in the same module


class _Subst(ast.NodeTransformer):
    def __init__(self, names: dict, attrs: dict | None = None, self_name: str | None = None) -> None:
        self.names = names
        self.attrs = attrs or {}
        self.self_name = self_name

    def visit_Name(self, node: ast.Name):
        if isinstance(node.ctx, ast.Load) and node.id in self.names:
            import copy

            return copy.deepcopy(self.names[node.id])
        return node

    def visit_Attribute(self, node: ast.Attribute):
        if self.self_name and isinstance(node.value, ast.Name) and node.value.id == self.self_name and node.attr in self.attrs and isinstance(node.ctx, ast.Load):
            import copy

            return copy.deepcopy(self.attrs[node.attr])
        return self.generic_visit(node)


def _strip_doc(body: list) -> list:
    return body[1:] if body and isinstance(body[0], ast.Expr) and isinstance(body[0].value, ast.Constant) and isinstance(body[0].value.value, str) else list(body)


def _bind(fn: ast.FunctionDef | ast.AsyncFunctionDef, call: ast.Call, skip_self: bool = False):
    """parameter -> argument expression (defaults filled in) or None when the call cannot be mapped."""
    a = fn.args
    if a.vararg or a.kwarg or any(isinstance(x, ast.Starred) for x in call.args) or any(k.arg is None for k in call.keywords):
        return None
    pos = [x.arg for x in a.posonlyargs + a.args]
    if skip_self:
        pos = pos[1:]
    if len(call.args) > len(pos):
        return None
    out = dict(zip(pos, call.args))
    kwonly = [x.arg for x in a.kwonlyargs]
    for k in call.keywords:
        if k.arg not in pos + kwonly or k.arg in out:
            return None
        out[k.arg] = k.value
    defaults = dict(zip(pos[len(pos) - len(a.defaults):] if a.defaults else [], a.defaults))
    if skip_self and a.defaults:
        allpos = [x.arg for x in a.posonlyargs + a.args]
        defaults = dict(zip(allpos[len(allpos) - len(a.defaults):], a.defaults))
    for nm, d in zip(kwonly, a.kw_defaults):
        if d is not None:
            defaults[nm] = d
    for nm in pos + kwonly:
        if nm not in out:
            if nm not in defaults:
                return None
            out[nm] = defaults[nm]
    return out


def _generator_cm(fn) -> ast.Try | None:
    """The single `try: yield / except ...` of a @contextmanager function, or None."""
    if not any((isinstance(d, ast.Name) and d.id in ("contextmanager", "asynccontextmanager")) or (isinstance(d, ast.Attribute) and d.attr in ("contextmanager", "asynccontextmanager")) for d in fn.decorator_list):
        return None
    body = _strip_doc(fn.body)
    if len(body) != 1 or not isinstance(body[0], ast.Try):
        return None
    t = body[0]
    if len(t.body) != 1 or not (isinstance(t.body[0], ast.Expr) and isinstance(t.body[0].value, ast.Yield) and t.body[0].value.value is None) or t.orelse:
        return None
    if any(isinstance(n, (ast.Yield, ast.YieldFrom, ast.Return)) for h in t.handlers for b in h.body for n in ast.walk(b)):
        return None
    return t


def _class_cm(cls: ast.ClassDef):
    """(exit function, exception types expr, exc-value parameter name, statements) for a class whose __enter__ does
    nothing and whose __exit__ is  `if <exception is not of T>: return <falsy>` ; <statements> ; `return <falsy>` | raise."""
    meths = {n.name: n for n in cls.body if isinstance(n, (ast.FunctionDef, ast.AsyncFunctionDef))}
    ent = meths.get("__enter__") or meths.get("__aenter__")
    ext = meths.get("__exit__") or meths.get("__aexit__")
    init = meths.get("__init__")
    if ent is None or ext is None or init is None:
        return None
    eb = _strip_doc(ent.body)
    if not all(isinstance(x, ast.Pass) or (isinstance(x, ast.Return) and (x.value is None or (isinstance(x.value, ast.Name) and x.value.id == ent.args.args[0].arg) or (isinstance(x.value, ast.Constant) and x.value.value is None))) for x in eb):
        return None
    params = [x.arg for x in ext.args.args]
    if len(params) != 4:
        return None
    selfn, tname, vname, _tb = params
    body = _strip_doc(ext.body)
    if not body or not isinstance(body[0], ast.If) or body[0].orelse:
        return None
    g = body[0]
    if not (len(g.body) == 1 and isinstance(g.body[0], ast.Return) and (g.body[0].value is None or (isinstance(g.body[0].value, ast.Constant) and not g.body[0].value.value))):
        return None

    def positive(e):
        """types expr T when e means 'the exception is an instance of T'."""
        if isinstance(e, ast.Call) and isinstance(e.func, ast.Name) and len(e.args) == 2:
            if e.func.id == "isinstance" and isinstance(e.args[0], ast.Name) and e.args[0].id == vname:
                return e.args[1]
            if e.func.id == "issubclass" and isinstance(e.args[0], ast.Name) and e.args[0].id == tname:
                return e.args[1]
        if isinstance(e, ast.BoolOp) and isinstance(e.op, ast.And) and len(e.values) >= 2:
            *nn, b = e.values
            if all(isinstance(a, ast.Compare) and len(a.ops) == 1 and isinstance(a.ops[0], ast.IsNot) and isinstance(a.left, ast.Name) and a.left.id in (tname, vname) and isinstance(a.comparators[0], ast.Constant) and a.comparators[0].value is None for a in nn):
                return positive(b)
        return None

    def negative(e):
        if isinstance(e, ast.UnaryOp) and isinstance(e.op, ast.Not):
            return positive(e.operand)
        if isinstance(e, ast.BoolOp) and isinstance(e.op, ast.Or) and len(e.values) >= 2:
            *nones, b = e.values
            if all(isinstance(a, ast.Compare) and len(a.ops) == 1 and isinstance(a.ops[0], ast.Is) and isinstance(a.left, ast.Name) and a.left.id in (tname, vname) and isinstance(a.comparators[0], ast.Constant) and a.comparators[0].value is None for a in nones):
                return negative(b)
        return None

    types = negative(g.test)
    if types is None:
        return None
    rest = body[1:]
    if rest and isinstance(rest[-1], ast.Return):
        last = rest[-1]
        if not (last.value is None or (isinstance(last.value, ast.Constant) and not last.value.value)):
            return None  # suppressing managers are not translated
        rest = rest[:-1] + [ast.copy_location(ast.Raise(exc=None, cause=None), last)]
    elif not rest or not isinstance(rest[-1], ast.Raise):
        rest = rest + [ast.copy_location(ast.Raise(exc=None, cause=None), g)]
    if any(isinstance(n, ast.Return) for b in rest for n in ast.walk(b)):
        return None
    # attributes stored by __init__: self.<attr> = <param>
    stored = {}
    for st_ in _strip_doc(init.body):
        if isinstance(st_, (ast.Assign, ast.AnnAssign)):
            tg = st_.targets[0] if isinstance(st_, ast.Assign) else st_.target
            if isinstance(tg, ast.Attribute) and isinstance(tg.value, ast.Name) and tg.value.id == init.args.args[0].arg and isinstance(st_.value, ast.Name):
                stored[tg.attr] = st_.value.id
                continue
        return None
    return ext, init, types, selfn, tname, vname, rest, stored


class _CMDesugar(ast.NodeTransformer):
    def __init__(self, tree: ast.Module) -> None:
        self.gens = {}
        self.classes = {}
        for n in tree.body:
            if isinstance(n, (ast.FunctionDef,)):
                t = _generator_cm(n)
                if t is not None:
                    self.gens[n.name] = (n, t)
            elif isinstance(n, ast.ClassDef):
                c = _class_cm(n)
                if c is not None:
                    self.classes[n.name] = c
        self.count = 0

    def _rewrite(self, node):
        self.generic_visit(node)
        if len(node.items) != 1 or node.items[0].optional_vars is not None:
            return node
        call = node.items[0].context_expr
        if not (isinstance(call, ast.Call) and isinstance(call.func, ast.Name)):
            return node
        import copy

        if call.func.id in self.gens and isinstance(node, ast.With):
            fn, t = self.gens[call.func.id]
            amap = _bind(fn, call)
            if amap is None:
                return node
            sub = _Subst(amap)
            handlers = []
            for h in t.handlers:
                h2 = copy.deepcopy(h)
                if h2.type is not None:
                    h2.type = sub.visit(h2.type)
                h2.body = [sub.visit(b) for b in h2.body]
                handlers.append(h2)
            final = [sub.visit(copy.deepcopy(b)) for b in t.finalbody]
            new = ast.Try(body=node.body, handlers=handlers, orelse=[], finalbody=final)
            self.count += 1
            return _mark(new, node)
        if call.func.id in self.classes:
            ext, init, types, selfn, tname, vname, rest, stored = self.classes[call.func.id]
            if isinstance(ext, ast.AsyncFunctionDef) != isinstance(node, ast.AsyncWith):
                return node
            amap = _bind(init, call, skip_self=True)
            if amap is None:
                return node
            attrs = {attr: amap[prm] for attr, prm in stored.items() if prm in amap}
            if len(attrs) != len(stored):
                return node
            self.count += 1
            exc_name = f"__cm_exc_{self.count}"
            names = {vname: ast.Name(id=exc_name, ctx=ast.Load()), tname: ast.Call(func=ast.Name(id="type", ctx=ast.Load()), args=[ast.Name(id=exc_name, ctx=ast.Load())], keywords=[])}
            sub = _Subst(names, attrs, selfn)
            body = [sub.visit(copy.deepcopy(b)) for b in rest]
            h = ast.ExceptHandler(type=sub.visit(copy.deepcopy(types)), name=exc_name, body=body)
            new = ast.Try(body=node.body, handlers=[h], orelse=[], finalbody=[])
            return _mark(new, node)
        return node

    visit_With = _rewrite
    visit_AsyncWith = _rewrite


def desugar(tree: ast.Module) -> ast.Module:
    changed = False
    if any(isinstance(n, (ast.Match, ast.AnnAssign)) or (isinstance(n, ast.Return) and isinstance(n.value, ast.IfExp)) for n in ast.walk(tree)):
        tree = _Desugar().visit(tree)
        changed = True
    if any(isinstance(n, (ast.With, ast.AsyncWith)) for n in ast.walk(tree)):
        cm = _CMDesugar(tree)
        if cm.gens or cm.classes:
            tree = cm.visit(tree)
            changed = changed or cm.count > 0
    if changed:
        ast.fix_missing_locations(tree)
    return tree
