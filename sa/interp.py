"""E4: version contexts, callable values, dispatch idioms, call resolution.

A tiny abstract interpreter for *function values and literal constants only*:
which function object can a name hold, and is a flag definitely True/False/None.
Nothing of the repository is executed.
"""

from __future__ import annotations

import ast
from dataclasses import dataclass, field
from typing import Any

from .model import (
    AnalysisError,
    ClassInfo,
    EnumVal,
    Folder,
    FuncInfo,
    Module,
    PKG,
    Program,
    Unfoldable,
    norm,
)

PROTOCOL_TYPE = "aiomysensors.model.protocol.ProtocolType"


# --------------------------------------------------------------------------
# abstract values


class _Unknown:
    def __repr__(self) -> str:
        return "UNKNOWN"


UNKNOWN = _Unknown()


@dataclass(frozen=True)
class Const:
    value: Any

    def __repr__(self) -> str:
        return f"Const({self.value!r})"


@dataclass(frozen=True)
class Truthy:
    """An object that is certainly not None/False (e.g. a dataclass instance)."""

    what: str


@dataclass(frozen=True)
class InstVal:
    """An instance of a repository class built from constants at module level (e.g. a callable object used as a function)."""

    cls: ClassInfo
    obj: "ObjVal | None" = None


@dataclass(frozen=True)
class ClassVal:
    cls: ClassInfo

    def __repr__(self) -> str:
        return f"ClassVal({self.cls.fq})"


@dataclass(frozen=True)
class ModVal:
    module: Module


@dataclass(frozen=True)
class ObjVal:
    """An object some of whose integer/str fields are known constants."""

    fields: tuple  # ((field, frozenset[Const]), ...)

    def get(self, name: str):
        for k, v in self.fields:
            if k == name:
                return v
        return None

    def with_field(self, name: str, vals: frozenset) -> "ObjVal":
        cur = self.get(name)
        if cur is not None:
            inter = cur & vals
            vals = inter if inter else vals
        return ObjVal(tuple(sorted([(k, v) for k, v in self.fields if k != name] + [(name, vals)], key=lambda kv: kv[0])))

    def __repr__(self) -> str:
        return "Obj(" + ",".join(f"{k}={sorted(repr(getattr(c, 'value', c)) for c in v)}" for k, v in self.fields) + ")"


@dataclass(frozen=True)
class Absent:
    """getattr() without default on a missing attribute."""

    owner: str
    name: str


@dataclass(frozen=True)
class Callee:
    func: FuncInfo
    cls: ClassInfo | None = None
    env: tuple = ()  # tuple[(name, frozenset[Value])]

    def __repr__(self) -> str:
        inner = ""
        for k, v in self.env:
            for x in v:
                if isinstance(x, Callee):
                    inner = f" <- {x!r}"
        c = f"@{self.cls.module.name.rsplit('.', 1)[-1]}" if self.cls else ""
        return f"{self.func.qualname}[{self.func.module.name.rsplit('.', 1)[-1]}]{c}{inner}"

    def describe(self) -> str:
        return repr(self)

    def chain(self) -> list["Callee"]:
        """The wrapper chain wrapper -> ... -> raw def (following the `func` binding)."""
        out = [self]
        cur = self
        while True:
            nxt = None
            for k, v in cur.env:
                for x in v:
                    if isinstance(x, Callee) and k == cur_wrapped_param(cur):
                        nxt = x
            if nxt is None:
                return out
            out.append(nxt)
            cur = nxt


def _is_const_text(t: str) -> bool:
    try:
        ast.literal_eval(t)
    except (ValueError, SyntaxError):
        return False
    return True


def _rename_text(text: str, ren: dict) -> str | None:
    """Rename the free names of an expression text; None if a free name is not in the renaming (not passed along)."""
    try:
        tree = ast.parse(text, mode="eval")
    except SyntaxError:
        return None
    names = {n.id for n in ast.walk(tree) if isinstance(n, ast.Name)}
    if not names or not names <= set(ren):
        return None

    class R(ast.NodeTransformer):
        def visit_Name(self, node):  # noqa: N802
            return ast.Name(id=ren[node.id], ctx=node.ctx)

    return norm(R().visit(tree))


def cur_wrapped_param(c: Callee) -> str | None:
    """Name of the parameter of the enclosing decorator that holds the wrapped callable."""
    p = c.func.parent
    if p is None:
        # partial(wrapper, func): a module-level wrapper whose own first parameter holds the wrapped callable
        pp = c.func.positional_params
        if pp and any(k == pp[0] and any(isinstance(x, Callee) for x in v) for k, v in c.env):
            return pp[0]
        return None
    params = p.positional_params
    return params[0] if params else None


_EXTERNAL_ALIASES = {
    "asyncio.Queue": "asyncio.queues.Queue",
    "asyncio.LifoQueue": "asyncio.queues.LifoQueue",
    "asyncio.PriorityQueue": "asyncio.queues.PriorityQueue",
    "asyncio.create_task": "asyncio.tasks.create_task",
    "asyncio.sleep": "asyncio.tasks.sleep",
    "asyncio.gather": "asyncio.tasks.gather",
    "asyncio.Lock": "asyncio.locks.Lock",
    "asyncio.Event": "asyncio.locks.Event",
    "marshmallow.Schema": "marshmallow.schema.Schema",
}


@dataclass(frozen=True)
class Frame:
    callee: Callee
    V: str | None  # protocol version context
    env: tuple = ()  # extra bindings name -> frozenset[Value]
    tainted: frozenset = frozenset()
    facts: frozenset = frozenset()  # guard facts holding on entry (transferred from the call site)

    @property
    def func(self) -> FuncInfo:
        return self.callee.func

    @property
    def module(self) -> Module:
        return self.callee.func.module

    def lookup(self, name: str):
        for k, v in self.env:
            if k == name:
                return v
        for k, v in self.callee.env:
            if k == name:
                return v
        return None

    def bind(self, name: str, vals: frozenset) -> "Frame":
        env = tuple((k, v) for k, v in self.env if k != name) + ((name, vals),)
        return Frame(self.callee, self.V, env, self.tainted, self.facts)

    def unbind(self, name: str) -> "Frame":
        if self.lookup(name) is None:
            return self
        env = tuple((k, v) for k, v in self.env if k != name) + ((name, frozenset([UNKNOWN])),)
        return Frame(self.callee, self.V, env, self.tainted, self.facts)

    def with_taint(self, t: frozenset) -> "Frame":
        return Frame(self.callee, self.V, self.env, t, self.facts)

    def key(self):
        return (self.callee, self.V, self.env, self.tainted, self.facts)


# --------------------------------------------------------------------------
# call targets


@dataclass
class Target:
    kind: str  # repo | external | ctor | absent | none | unknown
    frame: Frame | None = None
    fullname: str | None = None
    cls: ClassInfo | None = None
    argtypes: list | None = None
    note: str = ""


def _isdict_guard(test: ast.expr) -> str | None:
    """`isinstance(<name>, dict)` -> name"""
    if isinstance(test, ast.Call) and isinstance(test.func, ast.Name) and test.func.id == "isinstance" and len(test.args) == 2 and isinstance(test.args[0], ast.Name) and isinstance(test.args[1], ast.Name) and test.args[1].id == "dict":
        return test.args[0].id
    return None


def _not_isdict_guard(test: ast.expr) -> str | None:
    """`not isinstance(<name>, dict)` -> name"""
    if isinstance(test, ast.UnaryOp) and isinstance(test.op, ast.Not):
        return _isdict_guard(test.operand)
    return None


TRANSPARENT_DECORATORS = {
    # generator-based context managers: the body runs at `with` entry / exit; treating the decorator as transparent
    # attributes everything the body can raise (and every effect it has) to the `with` item that calls it
    "contextmanager",
    "asynccontextmanager",
    "contextlib.contextmanager",
    "contextlib.asynccontextmanager",
    "lru_cache",
    "functools.lru_cache",
    "classmethod",
    "staticmethod",
    "abstractmethod",
    "property",
    "cache",
    "functools.cache",
    "pre_load",
    "post_load",
    "post_dump",
    "pre_dump",
    "dataclass",
}


class Interp:
    def __init__(self, prog: Program) -> None:
        self.prog = prog
        self.folder = Folder(prog)
        self.versions = self._protocol_versions()
        self._local_assign_cache: dict[FuncInfo, dict[str, list[ast.AST]]] = {}
        self._eval_depth = 0
        self._last_selector = None
        self._facts_ctx: frozenset = frozenset()
        self._container_cache: dict = {}

    # ---- version contexts

    def _protocol_versions(self) -> dict[str, Module]:
        pm = self.prog.module("aiomysensors.model.protocol")
        d = self.prog.resolve_name(pm, "PROTOCOL_VERSIONS")
        if d is None or d.kind != "const" or not isinstance(d.obj, ast.Dict):
            raise AnalysisError("anchor vanished: PROTOCOL_VERSIONS dict literal")
        out: dict[str, Module] = {}
        for k, v in zip(d.obj.keys, d.obj.values):
            if k is None:
                raise AnalysisError("PROTOCOL_VERSIONS: dict unpacking not supported")
            try:
                key = self.folder.fold(pm, k)
            except Unfoldable as err:
                raise AnalysisError(f"PROTOCOL_VERSIONS key: {err}") from err
            md = self.prog.resolve_expr(pm, v)
            if md is None or md.kind != "module":
                raise AnalysisError(f"PROTOCOL_VERSIONS[{key!r}] is not a module")
            out[str(key)] = md.obj
        if not out:
            raise AnalysisError("PROTOCOL_VERSIONS is empty")
        return out

    def vmod(self, V: str) -> Module:
        return self.versions[V]

    def vclass(self, V: str, name: str) -> ClassInfo:
        d = self.prog.resolve_name(self.vmod(V), name)
        if d is None or d.kind != "class":
            raise AnalysisError(f"anchor vanished: {self.vmod(V).name}.{name}")
        return d.obj

    # ---- callables

    def decorator_def(self, f: FuncInfo, dec: ast.expr) -> FuncInfo | str:
        """Resolve a decorator expression to a repo FuncInfo or a name."""
        target = dec.func if isinstance(dec, ast.Call) else dec
        d = self.prog.resolve_expr(f.module, target)
        if d is not None and d.kind == "func":
            return d.obj
        if d is not None and d.kind == "external":
            return d.obj
        return ast.unparse(target)

    def wrapper_of(self, deco: FuncInfo) -> FuncInfo:
        """A repo decorator must be `def deco(func): async def wrapper(...): ...; return wrapper`."""
        rets = [n for n in ast.walk(deco.node) if isinstance(n, ast.Return) and self.prog.func_of_node.get(n) is deco]
        if len(rets) == 1 and isinstance(rets[0].value, ast.Call) and norm(rets[0].value.func).rsplit(".", 1)[-1] == "partial" and len(rets[0].value.args) == 2 and not rets[0].value.keywords and len(deco.positional_params) == 1 and isinstance(rets[0].value.args[1], ast.Name) and rets[0].value.args[1].id == deco.positional_params[0] and isinstance(rets[0].value.args[0], ast.Name):
            # `return partial(_wrapper, func)`: the wrapper is a module-level function whose first parameter is the wrapped one
            d = self.prog.resolve_name(deco.module, rets[0].value.args[0].id)
            if d is not None and d.kind == "func" and d.obj.cls is None and d.obj.parent is None and d.obj.positional_params:
                self.__dict__.setdefault("_partial_wrappers", set()).add(d.obj)
                return d.obj
        if len(rets) != 1 or not isinstance(rets[0].value, ast.Name) or rets[0].value.id not in deco.nested:
            raise AnalysisError(f"decorator {deco.fq} is not of the recognised wrapper shape")
        if len(deco.positional_params) != 1:
            raise AnalysisError(f"decorator {deco.fq}: expected exactly one parameter")
        return deco.nested[rets[0].value.id]

    def make_callee(self, func: FuncInfo, cls: ClassInfo | None) -> Callee:
        cur = Callee(func, cls, ())
        for dec in reversed(func.decorators):
            d = self.decorator_def(func, dec)
            if isinstance(d, FuncInfo):
                w = self.wrapper_of(d)
                wp = w.positional_params
                if w in self.__dict__.get("_partial_wrappers", ()):
                    env = [(wp[0], frozenset([cur]))]
                    if len(wp) > 1 and cls is not None:
                        env.append((wp[1], frozenset([ClassVal(cls)])))
                else:
                    env = [(d.positional_params[0], frozenset([cur]))]
                    if wp and cls is not None:
                        env.append((wp[0], frozenset([ClassVal(cls)])))
                cur = Callee(w, cls, tuple(env))
            else:
                nm = d.split(".")[-1] if "." in d else d
                full = d
                if nm in TRANSPARENT_DECORATORS or full in TRANSPARENT_DECORATORS or nm == "setter" or nm == "wraps":
                    continue
                raise AnalysisError(f"unrecognised decorator {d} on {func.fq}")
        return cur

    # ---- local definitions

    def local_assigns(self, f: FuncInfo) -> dict[str, list[ast.AST]]:
        """name -> list of binding sites (value exprs or the binding node) in f's own body."""
        if f in self._local_assign_cache:
            return self._local_assign_cache[f]
        out: dict[str, list[ast.AST]] = {}

        def add_target(t, val):
            if isinstance(t, ast.Name):
                out.setdefault(t.id, []).append(val)
            elif isinstance(t, (ast.Tuple, ast.List)):
                for e in t.elts:
                    add_target(e, None)
            elif isinstance(t, ast.Starred):
                add_target(t.value, None)

        for n in self.own_nodes(f):
            if isinstance(n, ast.Assign):
                for t in n.targets:
                    if isinstance(t, ast.Name):
                        add_target(t, n.value)
                    else:
                        add_target(t, None)
            elif isinstance(n, ast.AnnAssign):
                add_target(n.target, n.value)
            elif isinstance(n, ast.AugAssign):
                add_target(n.target, None)
            elif isinstance(n, (ast.For, ast.AsyncFor)):
                add_target(n.target, None)
            elif isinstance(n, (ast.With, ast.AsyncWith)):
                for it in n.items:
                    if it.optional_vars is not None:
                        add_target(it.optional_vars, None)
            elif isinstance(n, ast.ExceptHandler) and n.name:
                out.setdefault(n.name, []).append(None)
            elif isinstance(n, ast.NamedExpr):
                add_target(n.target, n.value)
        # `if c: x = a` / `else: x = b` (the only two bindings of x) is the conditional expression `a if c else b`
        parents = self.prog.parents
        for name, vals in list(out.items()):
            if len(vals) != 2 or not all(isinstance(v, ast.expr) for v in vals):
                continue
            sts = [parents.get(v) for v in vals]
            if not all(isinstance(st, (ast.Assign, ast.AnnAssign)) for st in sts):
                continue
            ifs = [parents.get(st) for st in sts]
            if ifs[0] is None or ifs[0] is not ifs[1] or not isinstance(ifs[0], ast.If):
                continue
            node = ifs[0]
            in_body = [any(st is x for x in node.body) for st in sts]
            in_else = [any(st is x for x in node.orelse) for st in sts]
            if in_body == [True, False] and in_else == [False, True]:
                a, b = vals
            elif in_body == [False, True] and in_else == [True, False]:
                b, a = vals
            else:
                continue
            out[name] = [ast.copy_location(ast.IfExp(test=node.test, body=a, orelse=b), node)]
        self._local_assign_cache[f] = out
        return out

    MUTATORS = ("append", "extend", "insert", "pop", "remove", "sort", "reverse", "clear", "update", "setdefault", "popitem", "add", "discard", "__setitem__", "__delitem__")

    def mutated_locals(self, f: FuncInfo) -> dict[str, ast.AST]:
        """Locals of f whose *content* is modified in place after being bound (`x[i] = v`, `del x[i]`, `x += ..`,
        `x.append(..)`): name -> first such construct.  The expression that built the container no longer describes
        its value.  (`x.attr = v` is not counted: a local that aliases a shared object still denotes that object.)"""
        cache = self.__dict__.setdefault("_mutated_cache", {})
        if f in cache:
            return cache[f]
        out: dict[str, ast.AST] = {}

        def root(e):
            while isinstance(e, (ast.Subscript, ast.Attribute)):
                e = e.value
            return e.id if isinstance(e, ast.Name) else None

        for n in self.own_nodes(f):
            tg: list = []
            if isinstance(n, ast.Assign):
                tg = [t for t in n.targets if isinstance(t, ast.Subscript)]
                for t in n.targets:
                    if isinstance(t, (ast.Tuple, ast.List)):
                        tg += [x for x in t.elts if isinstance(x, ast.Subscript)]
            elif isinstance(n, (ast.AugAssign, ast.AnnAssign)) and isinstance(n.target, ast.Subscript):
                tg = [n.target]
            elif isinstance(n, ast.AugAssign) and isinstance(n.target, ast.Name):
                out.setdefault(n.target.id, n)
            elif isinstance(n, ast.Delete):
                tg = [t for t in n.targets if isinstance(t, ast.Subscript)]
            elif isinstance(n, ast.Call) and isinstance(n.func, ast.Attribute) and n.func.attr in self.MUTATORS and isinstance(n.func.value, ast.Name):
                out.setdefault(n.func.value.id, n)
            for t in tg:
                if isinstance(t.value, ast.Name):  # direct element / attribute of the local itself
                    out.setdefault(t.value.id, n)
        cache[f] = out
        return out

    def tuple_assigns(self, f: FuncInfo) -> dict[str, list[tuple[ast.expr, int]]]:
        """name -> [(value expr, index)] for names bound by `a, b = <value>` in f's own body."""
        cache = self.__dict__.setdefault("_tuple_assign_cache", {})
        if f in cache:
            return cache[f]
        out: dict[str, list[tuple[ast.expr, int]]] = {}
        for n in self.own_nodes(f):
            if isinstance(n, ast.Assign) and len(n.targets) == 1 and isinstance(n.targets[0], (ast.Tuple, ast.List)):
                elts = n.targets[0].elts
                if all(isinstance(x, ast.Name) for x in elts):
                    for i, x in enumerate(elts):
                        out.setdefault(x.id, []).append((n.value, i))
        cache[f] = out
        return out

    def record_fields(self, c: ClassInfo) -> list[str] | None:
        """Field names, in constructor order, of a dataclass / NamedTuple without a hand-written __init__."""
        if c.find_method("__init__") is not None:
            return None
        is_dc = any(norm(d).split("(")[0].split(".")[-1] == "dataclass" for d in c.node.decorator_list)
        is_nt = any(isinstance(b, str) and b.split(".")[-1] == "NamedTuple" for b in c.bases) or any(norm(b).split(".")[-1] == "NamedTuple" for b in c.node.bases)
        if not (is_dc or is_nt):
            return None
        out: list[str] = []
        for k in reversed(c.repo_mro()):
            for st in k.node.body:
                if isinstance(st, ast.AnnAssign) and isinstance(st.target, ast.Name) and "ClassVar" not in norm(st.annotation):
                    if isinstance(st.value, ast.Call) and any(kw.arg == "init" and isinstance(kw.value, ast.Constant) and kw.value.value is False for kw in st.value.keywords):
                        continue
                    if st.target.id not in out:
                        out.append(st.target.id)
        return out

    def record_default(self, c: ClassInfo, name: str) -> ast.expr | None:
        for k in c.repo_mro():
            for st in k.node.body:
                if isinstance(st, ast.AnnAssign) and isinstance(st.target, ast.Name) and st.target.id == name:
                    if st.value is None:
                        return None
                    if isinstance(st.value, ast.Call) and norm(st.value.func).split(".")[-1] == "field":
                        for kw in st.value.keywords:
                            if kw.arg == "default":
                                return kw.value
                        return None
                    return st.value
        return None

    def own_nodes(self, f: FuncInfo):
        """AST nodes of f's body excluding nested function/class bodies."""
        stack = list(f.node.body)
        while stack:
            n = stack.pop()
            yield n
            if isinstance(n, (ast.FunctionDef, ast.AsyncFunctionDef, ast.ClassDef, ast.Lambda)):
                continue
            for ch in ast.iter_child_nodes(n):
                if isinstance(ch, (ast.FunctionDef, ast.AsyncFunctionDef, ast.ClassDef, ast.Lambda)):
                    continue
                stack.append(ch)

    # ---- evaluation

    def eval(self, expr: ast.expr, fr: Frame) -> frozenset:
        self._eval_depth += 1
        try:
            if self._eval_depth > 40:
                return frozenset([UNKNOWN])
            return self._eval(expr, fr)
        finally:
            self._eval_depth -= 1

    def _eval(self, expr: ast.expr, fr: Frame) -> frozenset:
        p = self.prog
        U = frozenset([UNKNOWN])
        if isinstance(expr, ast.Constant):
            return frozenset([Const(expr.value)])
        if isinstance(expr, ast.Await):
            return self.eval(expr.value, fr)
        if isinstance(expr, ast.Name):
            if self._comp_bound(expr):
                return U
            b = fr.lookup(expr.id)
            if b is not None:
                return b
            f = fr.func
            # search enclosing function scopes
            scope: FuncInfo | None = f
            while scope is not None:
                if expr.id in scope.params:
                    if scope is f and expr.id == "cls" and f.is_classmethod() and fr.callee.cls is not None:
                        return frozenset([ClassVal(fr.callee.cls)])
                    if scope is f and fr.V is not None and p._with_facts and p.type_of(fr.module, expr) == PROTOCOL_TYPE:
                        # a parameter typed as the protocol object, in the context of version V: that version's module
                        # (the same reading `_attr_of` gives `protocol.X`)
                        return frozenset([ModVal(self.vmod(fr.V))])
                    return U
                la = self.local_assigns(scope)
                if expr.id in la:
                    sites = la[expr.id]
                    if scope is f and len(sites) == 1 and sites[0] is not None and isinstance(sites[0], ast.expr):
                        return self.eval(sites[0], fr)
                    if scope is f and len(sites) == 1 and sites[0] is None:
                        ev = self.loop_element_values(expr.id, fr)
                        if ev is not None:
                            return ev
                    return U
                if expr.id in scope.nested:
                    return frozenset([Callee(scope.nested[expr.id], fr.callee.cls, fr.callee.env + fr.env)])
                scope = scope.parent
            d = p.resolve_name(fr.module, expr.id)
            if d is None:
                return U
            return self._def_value(d)
        if isinstance(expr, ast.Attribute):
            return self._attr_of(expr.value, expr.attr, fr)
        if isinstance(expr, ast.Subscript) and isinstance(expr.value, ast.Name) and not self._comp_bound(expr.value) and fr.lookup(expr.value.id) is None:
            # a module-level constant table indexed by a key with known constant value(s)
            try:
                tab = self.folder.fold(fr.module, expr.value)
            except Exception:  # noqa: BLE001
                tab = None
            if isinstance(tab, dict):
                ks = self.eval(expr.slice, fr)
                if ks and all(isinstance(k_, Const) and k_.value in tab for k_ in ks):
                    outv = set()
                    for k_ in ks:
                        v_ = self.folder.plain(tab[k_.value])
                        if not (isinstance(v_, (int, str, bool)) or v_ is None):
                            return U
                        outv.add(Const(v_))
                    return frozenset(outv)
            return U
        if isinstance(expr, ast.IfExp):
            t = self.truth(expr.test, fr)
            if t is True:
                return self.eval(expr.body, fr)
            if t is False:
                return self.eval(expr.orelse, fr)
            return self.eval(expr.body, fr) | self.eval(expr.orelse, fr)
        if isinstance(expr, ast.BoolOp) and isinstance(expr.op, ast.Or) and len(expr.values) == 2:
            a = self.eval(expr.values[0], fr)
            ta = self._truth_of_vals(a)
            if ta is True:
                return a
            if ta is False:
                return self.eval(expr.values[1], fr)
            return U
        if isinstance(expr, ast.Call):
            g = self._getattr_idiom(expr, fr)
            if g is not None:
                return g
            # cast(T, x) -> x
            if isinstance(expr.func, ast.Name) and expr.func.id == "cast" and len(expr.args) == 2:
                return self.eval(expr.args[1], fr)
            targets = self.resolve_call(expr, fr, for_value=True)
            out = set()
            for t in targets:
                if t.kind == "repo" and t.frame is not None:
                    rets = self.return_exprs(t.frame.func)
                    if not rets:
                        out.add(Const(None))
                    for r in rets:
                        if r is None:
                            out.add(Const(None))
                        else:
                            out |= self.eval(r, t.frame)
                elif t.kind == "ctor":
                    ov = self.ctor_objval(t.cls, expr, fr) if t.cls is not None else None
                    out.add(ov if ov is not None else Truthy(t.cls.fq if t.cls else "object"))
                else:
                    return U
            return frozenset(out) if out else U
        return U

    def _attr_of(self, value: ast.expr, attr: str, fr: Frame) -> frozenset:
        """Abstract value of `<value>.<attr>` (also used for getattr(<value>, "<attr>"))."""
        p = self.prog
        U = frozenset([UNKNOWN])
        bt = p.type_of(fr.module, value) if p._with_facts else None
        if bt == PROTOCOL_TYPE and fr.V is not None:
            return self._module_attr(self.vmod(fr.V), attr)
        base = self.eval(value, fr)
        if UNKNOWN in base or not base:
            return U
        out: set = set()
        for b in base:
            if isinstance(b, ModVal):
                out |= self._module_attr(b.module, attr)
            elif isinstance(b, ClassVal):
                out |= self._class_attr(b.cls, attr)
            elif isinstance(b, ObjVal):
                fv = b.get(attr)
                if fv is None:
                    return U
                out |= fv
            else:
                return U
        return frozenset(out)

    def _comp_bound(self, name: ast.Name) -> bool:
        """Is this Name bound by an enclosing comprehension (its own scope)?"""
        cur = self.prog.parents.get(name)
        while cur is not None and not isinstance(cur, (ast.FunctionDef, ast.AsyncFunctionDef, ast.Module)):
            if isinstance(cur, (ast.ListComp, ast.SetComp, ast.DictComp, ast.GeneratorExp)):
                for g in cur.generators:
                    for n in ast.walk(g.target):
                        if isinstance(n, ast.Name) and n.id == name.id:
                            return True
            cur = self.prog.parents.get(cur)
        return False

    def _def_value(self, d) -> frozenset:
        if d.kind == "class":
            return frozenset([ClassVal(d.obj)])
        if d.kind == "func":
            return frozenset([self.make_callee(d.obj, d.obj.cls)])
        if d.kind == "module":
            return frozenset([ModVal(d.obj)])
        if d.kind == "const":
            if isinstance(d.obj, ast.Call) and isinstance(d.obj.func, (ast.Name, ast.Attribute)):
                dc = self.prog.resolve_expr(d.module, d.obj.func)
                if dc is not None and dc.kind == "class" and dc.obj.find_method("__init__") is not None and not self.folder.is_enum(dc.obj):
                    # NAME = Cls(<constants>): an instance whose stored constructor arguments are known
                    c = dc.obj
                    init = c.find_method("__init__")
                    pos = init.positional_params[1:]
                    given = dict(zip(pos, d.obj.args))
                    for k in d.obj.keywords:
                        if k.arg:
                            given[k.arg] = k.value
                    flds = []
                    for prm, attr in self.stored_params(c).items():
                        e = given.get(prm, init.param_default(prm))
                        if e is None:
                            continue
                        try:
                            cv = self.folder.plain(self.folder.fold(d.module, e))
                        except Unfoldable:
                            continue
                        if isinstance(cv, (int, str, bool)) or cv is None:
                            flds.append((attr, frozenset([Const(cv)])))
                    return frozenset([InstVal(c, ObjVal(tuple(sorted(flds))) if flds else None)])
            try:
                v = self.folder.fold(d.module, d.obj)
            except Unfoldable:
                return frozenset([UNKNOWN])
            if isinstance(v, (int, str, bool, type(None), EnumVal)):
                return frozenset([Const(self.folder.plain(v))])
            return frozenset([UNKNOWN])
        return frozenset([UNKNOWN])

    def _module_attr(self, m: Module, attr: str) -> frozenset:
        d = self.prog.resolve_name(m, attr)
        if d is None:
            return frozenset([Absent(m.name, attr)])
        return self._def_value(d)

    def _class_attr(self, c: ClassInfo, attr: str) -> frozenset:
        if attr in c.nested_classes:
            return frozenset([ClassVal(c.nested_classes[attr])])
        f = c.find_method(attr)
        if f is not None:
            return frozenset([self.make_callee(f, c)])
        a = c.find_attr(attr)
        if a is not None:
            if self.folder.is_enum(c):
                for nm, v in self.folder.enum_members(c):
                    if nm == attr:
                        return frozenset([Const(v)])
            return frozenset([UNKNOWN])
        return frozenset([Absent(c.fq, attr)])

    def stored_params(self, c: ClassInfo) -> dict[str, str]:
        """param -> attribute for `self.attr = param` / `self.attr = int(param)` in __init__."""
        init = c.find_method("__init__")
        out: dict[str, str] = {}
        if init is None:
            return out
        for st in init.node.body:
            if isinstance(st, (ast.Assign, ast.AnnAssign)):
                tgt = st.targets[0] if isinstance(st, ast.Assign) else st.target
                val = st.value
                if isinstance(tgt, ast.Attribute) and isinstance(tgt.value, ast.Name) and tgt.value.id == init.positional_params[0]:
                    if isinstance(val, ast.Call) and isinstance(val.func, ast.Name) and val.func.id == "int" and len(val.args) == 1:
                        val = val.args[0]
                    if isinstance(val, ast.Name) and val.id in init.params:
                        out[val.id] = tgt.attr
        return out

    def ctor_objval(self, c: ClassInfo, call: ast.Call, fr: Frame):
        init = c.find_method("__init__")
        if init is None:
            # NamedTuple / dataclass: the fields are the constructor arguments
            flds = self.record_fields(c)
            if flds is None or any(isinstance(a, ast.Starred) for a in call.args) or any(k.arg is None for k in call.keywords):
                return None
            given = dict(zip(flds, call.args))
            for k in call.keywords:
                given[k.arg] = k.value
            out = []
            for n in flds:
                if n in given:
                    vals = self.eval(given[n], fr)
                    if vals and UNKNOWN not in vals:
                        out.append((n, vals))
            return ObjVal(tuple(out)) if out else None
        stored = self.stored_params(c)
        if not stored:
            return None
        pos = init.positional_params[1:]
        given: dict[str, ast.expr] = {}
        for nm, a in zip(pos, call.args):
            if isinstance(a, ast.Starred):
                return None
            given[nm] = a
        for kw in call.keywords:
            if kw.arg is None:
                return None
            given[kw.arg] = kw.value
        fields = []
        for prm, attr in stored.items():
            e = given.get(prm, init.param_default(prm))
            if e is None:
                continue
            vals = self.eval(e, fr) if prm in given else (frozenset([Const(e.value)]) if isinstance(e, ast.Constant) else frozenset([UNKNOWN]))
            if vals and UNKNOWN not in vals and all(isinstance(v, Const) and isinstance(v.value, (int, str)) for v in vals):
                fields.append((attr, vals))
        if not fields:
            return None
        return ObjVal(tuple(sorted(fields, key=lambda kv: kv[0])))

    # ---- container element abstraction (which objects can a dict attribute hold)

    def loop_element_values(self, name: str, fr: Frame):
        """`for k, NAME in X.items()` / `for NAME in X.values()`: abstract values of X's elements."""
        f = fr.func
        for n in self.own_nodes(f):
            if isinstance(n, (ast.For, ast.AsyncFor)):
                cont = self._value_iter_container(n.target, n.iter, name)
                if cont is not None:
                    return self.element_values(cont, fr, 0)
        return None

    @staticmethod
    def _value_iter_container(target, it, name):
        if isinstance(it, ast.Call) and isinstance(it.func, ast.Attribute) and not it.args:
            if it.func.attr == "items" and isinstance(target, ast.Tuple) and len(target.elts) == 2 and isinstance(target.elts[1], ast.Name) and target.elts[1].id == name:
                return it.func.value
            if it.func.attr == "values" and isinstance(target, ast.Name) and target.id == name:
                return it.func.value
        return None

    def element_values(self, cont: ast.expr, fr: Frame, depth: int):
        if depth > 4:
            return None
        f = fr.func
        if isinstance(cont, ast.Name):
            la = self.local_assigns(f).get(cont.id)
            if not la or len(la) != 1 or la[0] is None:
                return None
            v = la[0]
            if isinstance(v, ast.DictComp) and len(v.generators) == 1 and isinstance(v.value, ast.Name):
                g = v.generators[0]
                inner = self._value_iter_container(g.target, g.iter, v.value.id)
                if inner is not None:
                    return self.element_values(inner, fr, depth + 1)
                return None
            if isinstance(v, ast.Call) and isinstance(v.func, ast.Attribute) and v.func.attr == "copy" and not v.args:
                return self.element_values(v.func.value, fr, depth + 1)
            if isinstance(v, ast.Call) and isinstance(v.func, ast.Name) and v.func.id == "dict" and len(v.args) == 1:
                return self.element_values(v.args[0], fr, depth + 1)
            return None
        if isinstance(cont, ast.Attribute):
            return self.container_attr_values(cont.attr, fr.V)
        return None

    def container_attr_values(self, attr: str, V):
        """Values stored by `<x>.<attr>[k] = v` anywhere in the package (v a parameter of a dispatched handler)."""
        key = (attr, V)
        if key in self._container_cache:
            return self._container_cache[key]
        self._container_cache[key] = None  # recursion guard
        out: set = set()
        found = False
        for g in self.prog.all_functions():
            for n in self.own_nodes(g):
                if isinstance(n, ast.Assign):
                    for t in n.targets:
                        if isinstance(t, ast.Subscript) and isinstance(t.value, ast.Attribute) and t.value.attr == attr:
                            found = True
                            vals = self._stored_value(g, n.value, V)
                            if vals is None:
                                return None
                            out |= vals
                elif isinstance(n, ast.Call) and isinstance(n.func, ast.Attribute) and n.func.attr in ("setdefault", "update", "__setitem__") and isinstance(n.func.value, ast.Attribute) and n.func.value.attr == attr:
                    return None
        res = frozenset(out) if found and out else None
        self._container_cache[key] = res
        return res

    def _stored_value(self, g: FuncInfo, v: ast.expr, V):
        if not (isinstance(v, ast.Name) and v.id in g.params):
            return None
        # g must only be reachable through a dispatch idiom that selects on `<v>.<field>`
        callees = []
        for sf, call in self.dispatch_sites():
            vs = [V] if V is not None else list(self.versions)
            for ver in vs:
                sfr = Frame(Callee(sf, sf.cls, ()), ver)
                for val in self.eval(call, sfr):
                    if isinstance(val, Callee) and val.func is g:
                        callees.append(val)
        if not callees:
            return None
        # direct references to g (not through the idiom) make the abstraction unsound
        for h in self.prog.all_functions():
            for n in self.own_nodes(h):
                if isinstance(n, ast.Attribute) and n.attr == g.name and not isinstance(self.prog.parents.get(n), ast.keyword):
                    base = n.value
                    if isinstance(base, ast.Call) and isinstance(base.func, ast.Name) and base.func.id == "super":
                        continue
                    return None
        out = set()
        for c in callees:
            sels = [(k[5:], vals) for k, vals in c.env if k.startswith("@sel:")]
            ok = False
            for seltxt, selvals in sels:
                base, _, fld = seltxt.partition(".")
                if base == v.id and fld:
                    out.add(ObjVal(((fld, selvals),)))
                    ok = True
            if not ok:
                return None
        return out

    def return_exprs(self, f: FuncInfo) -> list:
        return [n.value for n in self.own_nodes(f) if isinstance(n, ast.Return)]

    # ---- dispatch idiom

    def dispatch_sites(self) -> list[tuple[FuncInfo, ast.Call]]:
        out = []
        for f in self.prog.all_functions():
            for n in self.own_nodes(f):
                if isinstance(n, ast.Call) and isinstance(n.func, ast.Name) and n.func.id == "getattr" and len(n.args) >= 2 and self._idiom_name_syntactic(f, n.args[1], 0) is not None:
                    out.append((f, n))
        return out

    def _idiom_name_syntactic(self, f: FuncInfo, e: ast.expr, depth: int):
        """The f-string an attribute-name expression stands for: itself, a local bound once to it, or the value a
        small helper returns (`name = _handler_name(protocol, message)`).  Returns (function, JoinedStr) or None."""
        if depth > 3:
            return None
        if isinstance(e, ast.JoinedStr):
            return f, e
        if isinstance(e, ast.Name) and e.id not in f.params:
            la = self.local_assigns(f).get(e.id) or []
            if len(la) == 1 and isinstance(la[0], ast.expr):
                return self._idiom_name_syntactic(f, la[0], depth + 1)
            return None
        if isinstance(e, ast.Call) and isinstance(e.func, (ast.Name, ast.Attribute)):
            h = None
            if isinstance(e.func, ast.Name):
                d = self.prog.resolve_name(f.module, e.func.id)
                if d is not None and d.kind == "func":
                    h = d.obj
            elif isinstance(e.func.value, ast.Name) and e.func.value.id in ("cls", "self") and f.cls is not None:
                h = f.cls.find_method(e.func.attr)
            if h is None or h.is_async or h is f:
                return None
            rets = [n for n in self.own_nodes(h) if isinstance(n, ast.Return)]
            if len(rets) != 1 or rets[0].value is None or rets[0] is not h.node.body[-1]:
                return None
            return self._idiom_name_syntactic(h, rets[0].value, depth + 1)
        return None

    def _getattr_idiom(self, call: ast.Call, fr: Frame):
        """getattr(<class>, f"prefix{<enumvar>.name[.lower()]}", [default])."""
        if not (isinstance(call.func, ast.Name) and call.func.id == "getattr" and len(call.args) in (2, 3)):
            return None
        # getattr(x, "Name") with a constant name (possibly a parameter bound to a constant) is plain x.Name
        if len(call.args) == 2 and not isinstance(call.args[1], ast.JoinedStr):
            nv = self.eval(call.args[1], fr)
            if nv and all(isinstance(v, Const) and isinstance(v.value, str) for v in nv):
                out0: set = set()
                for v in nv:
                    out0 |= self._attr_of(call.args[0], v.value, fr)
                return frozenset(out0)
        info = self.getattr_idiom_info(call, fr)
        if info is None:
            return frozenset([UNKNOWN])
        owner_vals, names, default = info
        sel = self._last_selector
        out: set = set()
        for ov in owner_vals:
            if not isinstance(ov, ClassVal):
                return frozenset([UNKNOWN])
            for nm in names:
                f = ov.cls.find_method(nm)
                if f is not None:
                    cal = self.make_callee(f, ov.cls)
                    if sel is not None and nm in sel[1]:
                        cal = Callee(cal.func, cal.cls, cal.env + ((f"@sel:{sel[0]}", frozenset([Const(sel[1][nm])])),))
                    out.add(cal)
                elif ov.cls.find_attr(nm) is not None:
                    out.add(UNKNOWN)
                elif default is not None:
                    out |= default
                else:
                    out.add(Absent(ov.cls.fq, nm))
        return frozenset(out)

    def getattr_idiom_info(self, call: ast.Call, fr: Frame):
        """Return (owner values, candidate attribute names, default values|None) or None."""
        owner_vals = self.eval(call.args[0], fr)
        if UNKNOWN in owner_vals:
            return None
        js = call.args[1]
        # the name may be a local bound to the f-string, or come from a small helper: evaluate the f-string in the
        # frame of the function that contains it
        hops = 0
        while not isinstance(js, ast.JoinedStr) and hops < 4:
            hops += 1
            if isinstance(js, ast.Name) and js.id not in fr.func.params:
                la = self.local_assigns(fr.func).get(js.id) or []
                if len(la) == 1 and isinstance(la[0], ast.expr):
                    js = la[0]
                    continue
                return None
            if isinstance(js, ast.Call) and self._idiom_name_syntactic(fr.func, js, 0) is not None:
                ts = [t for t in self.resolve_call(js, fr) if t.kind == "repo" and t.frame is not None]
                if len(ts) != 1:
                    return None
                fr = ts[0].frame
                js = fr.func.node.body[-1].value
                continue
            return None
        if not isinstance(js, ast.JoinedStr):
            return None
        prefix = ""
        enum_cls = None
        lower = False
        upper = False
        seen_fv = False
        seen_enum = False
        for part in js.values:
            if isinstance(part, ast.Constant):
                if seen_enum:
                    return None
                prefix += str(part.value)
            elif isinstance(part, ast.FormattedValue):
                if seen_enum:
                    return None
                seen_fv = True
                e = part.value
                # a constant prefix kept in a module-level name
                if isinstance(e, (ast.Name, ast.Attribute)) and not seen_enum:
                    try:
                        cv = self.folder.fold(fr.module, e)
                    except Unfoldable:
                        cv = None
                    if isinstance(cv, str):
                        prefix += cv
                        continue
                seen_enum = True
                if isinstance(e, ast.Call) and isinstance(e.func, ast.Attribute) and e.func.attr in ("lower", "upper") and not e.args:
                    lower = e.func.attr == "lower"
                    upper = e.func.attr == "upper"
                    e = e.func.value
                if not (isinstance(e, ast.Attribute) and e.attr == "name"):
                    return None
                enum_expr = e.value
                enum_cls = self.enum_class_of(e.value, fr)
                if enum_cls is None:
                    return None
        if enum_cls is None:
            return None
        names = []
        known = self.enum_arg_values(enum_expr, fr)
        selmap = {}
        for v, nm in self.folder.enum_canonical(enum_cls).items():
            if known is not None and v not in known:
                continue
            n2 = nm.lower() if lower else nm.upper() if upper else nm
            names.append(prefix + n2)
            selmap[prefix + n2] = v
        argtxt = self.enum_arg_text(enum_expr, fr)
        self._last_selector = (argtxt, selmap) if argtxt else None
        default = None
        if len(call.args) == 3:
            default = self.eval(call.args[2], fr)
        return owner_vals, names, default

    def _enum_call(self, e: ast.expr, fr: Frame):
        if isinstance(e, ast.Name):
            la = self.local_assigns(fr.func).get(e.id)
            if not la or len(la) != 1 or la[0] is None:
                return None
            e = la[0]
        if isinstance(e, ast.Call) and len(e.args) == 1:
            return e
        return None

    def enum_arg_text(self, e: ast.expr, fr: Frame) -> str | None:
        c = self._enum_call(e, fr)
        if c is None:
            return None
        a = c.args[0]
        if isinstance(a, ast.Attribute) and isinstance(a.value, ast.Name):
            return f"{a.value.id}.{a.attr}"
        return None

    def enum_arg_values(self, e: ast.expr, fr: Frame):
        """Known constant values of the argument of the enum lookup, or None."""
        c = self._enum_call(e, fr)
        if c is None:
            return None
        vals = self.eval(c.args[0], fr)
        if not vals or UNKNOWN in vals or not all(isinstance(v, Const) for v in vals):
            return None
        return {v.value for v in vals}

    def enum_class_of(self, e: ast.expr, fr: Frame) -> ClassInfo | None:
        """e is (a name bound to) `<EnumClass>(x)`: return the enum class."""
        if isinstance(e, ast.Name):
            la = self.local_assigns(fr.func).get(e.id)
            if not la or len(la) != 1 or la[0] is None:
                return None
            e = la[0]
        if isinstance(e, ast.Call) and len(e.args) == 1:
            vals = self.eval(e.func, fr)
            if len(vals) == 1:
                (v,) = vals
                if isinstance(v, ClassVal) and self.folder.is_enum(v.cls):
                    return v.cls
        return None

    # ---- three-valued truth

    def _truth_of_vals(self, vals: frozenset):
        if not vals or UNKNOWN in vals:
            return None
        ts = set()
        for v in vals:
            if isinstance(v, Const):
                ts.add(bool(v.value))
            elif isinstance(v, (Callee, ClassVal, ModVal, Truthy, ObjVal)):
                ts.add(True)
            else:
                return None
        return ts.pop() if len(ts) == 1 else None

    def truth(self, test: ast.expr, fr: Frame):
        if isinstance(test, ast.UnaryOp) and isinstance(test.op, ast.Not):
            t = self.truth(test.operand, fr)
            return None if t is None else (not t)
        if isinstance(test, ast.BoolOp):
            ts = [self.truth(v, fr) for v in test.values]
            if isinstance(test.op, ast.And):
                if any(t is False for t in ts):
                    return False
                if all(t is True for t in ts):
                    return True
                return None
            if any(t is True for t in ts):
                return True
            if all(t is False for t in ts):
                return False
            return None
        if isinstance(test, ast.Compare) and len(test.ops) == 1:
            op = test.ops[0]
            left = self.eval(test.left, fr)
            right = self.eval(test.comparators[0], fr)
            if isinstance(op, (ast.Is, ast.IsNot)) and right == frozenset([Const(None)]):
                if UNKNOWN in left or not left:
                    return None
                isnone = {isinstance(v, Const) and v.value is None for v in left}
                if len(isnone) != 1:
                    return None
                r = isnone.pop()
                return r if isinstance(op, ast.Is) else (not r)
            if isinstance(op, (ast.Eq, ast.NotEq)):
                if len(left) == 1 and len(right) == 1:
                    (a,) = left
                    (b,) = right
                    if isinstance(a, Const) and isinstance(b, Const):
                        r = a.value == b.value
                        return r if isinstance(op, ast.Eq) else (not r)
            return None
        return self._truth_of_vals(self.eval(test, fr))

    def narrow(self, test: ast.expr, fr: Frame, branch: bool) -> Frame:
        """Refine env-bound names by the outcome of `test`."""
        if isinstance(test, ast.UnaryOp) and isinstance(test.op, ast.Not):
            return self.narrow(test.operand, fr, not branch)
        if isinstance(test, ast.BoolOp):
            if isinstance(test.op, ast.And) and branch:
                for v in test.values:
                    fr = self.narrow(v, fr, True)
                return fr
            if isinstance(test.op, ast.Or) and not branch:
                for v in test.values:
                    fr = self.narrow(v, fr, False)
                return fr
            return fr
        name = None
        want_none = None
        if isinstance(test, ast.Name):
            name = test.id
            vals = fr.lookup(name)
            if vals is None or UNKNOWN in vals:
                return fr
            keep = frozenset(v for v in vals if self._truth_of_vals(frozenset([v])) in (branch, None))
            return fr.bind(name, keep) if keep else fr
        if isinstance(test, ast.Compare) and len(test.ops) == 1 and isinstance(test.left, ast.Name):
            op = test.ops[0]
            c = test.comparators[0]
            if isinstance(op, (ast.Is, ast.IsNot)) and isinstance(c, ast.Constant) and c.value is None:
                name = test.left.id
                want_none = isinstance(op, ast.Is) == branch
                vals = fr.lookup(name)
                if vals is None or UNKNOWN in vals:
                    return fr
                keep = frozenset(
                    v for v in vals if (isinstance(v, Const) and v.value is None) == want_none
                )
                return fr.bind(name, keep) if keep else fr
        return fr

    # ---- call resolution

    def bind_call(self, callee: Callee, call: ast.Call | None, fr: Frame | None, V: str | None, skip_first: bool = False, extra_taint: frozenset = frozenset(), facts: frozenset = frozenset()) -> Frame:
        """Frame for callee with function-valued / literal arguments bound to parameters."""
        env: list = []
        tainted: set = set(extra_taint)
        out_facts: set = set()
        if call is not None and fr is not None:
            f = callee.func
            pos = f.positional_params
            if skip_first or (f.cls is not None and not f.is_staticmethod() and f.parent is None):
                # bound method call: first parameter is self/cls
                pos_eff = pos[1:]
            else:
                pos_eff = pos
            # wrapper functions receive cls explicitly as first arg when invoked via classmethod
            if f.parent is not None and callee.cls is not None and pos and self._is_wrapper(f):
                pos_eff = pos[1:]
            if f in self.__dict__.get("_partial_wrappers", ()):
                # partial(wrapper, func): func is bound already; the class comes next when called through a classmethod
                pos_eff = pos[2:] if callee.cls is not None else pos[1:]
            pairs: list[tuple[str, ast.expr]] = []
            args = list(call.args)
            # explicit self/cls passed positionally (func(self, gateway, ...))
            if f.cls is not None and f.parent is None and not f.is_staticmethod() and len(args) == len(pos) and not isinstance(call.func, ast.Attribute):
                args = args[1:]
            elif f.parent is not None and callee.cls is not None and pos and self._is_wrapper(f) and len(args) == len(pos) and isinstance(call.func, ast.Name):
                # a decorator wrapper called by an outer decorator's wrapper (`func(self, gateway, ...)`): the class is
                # passed explicitly here too
                args = args[1:]
            for name, a in zip(pos_eff, args):
                if isinstance(a, ast.Starred):
                    break
                pairs.append((name, a))
            for kw in call.keywords:
                if kw.arg is not None:
                    pairs.append((kw.arg, kw.value))
            sels = [(k[5:], v) for k, v in callee.env if k.startswith("@sel:")]
            bound = set()
            # `f(data=_require(data))` where _require returns its argument: the argument itself
            pairs = [(name, self.passthrough_arg(a, fr)) for name, a in pairs]
            for name, a in pairs:
                bound.add(name)
                vals = self.eval(a, fr)
                if isinstance(a, ast.Name):
                    for seltxt, selvals in sels:
                        base, _, fld = seltxt.partition(".")
                        if base == a.id and fld:
                            objs = [v for v in vals if isinstance(v, ObjVal)] if vals and UNKNOWN not in vals else []
                            if objs and len(objs) == len(vals):
                                vals = frozenset(o.with_field(fld, selvals) for o in objs)
                            else:
                                vals = frozenset([ObjVal(((fld, selvals),))])
                if vals and UNKNOWN not in vals:
                    env.append((name, vals))
                if self.expr_tainted(a, fr):
                    tainted.add(name)
                if facts and isinstance(a, (ast.Name, ast.Attribute)):
                    at = norm(a)
                    for fct in facts:
                        if fct[0] == "isdict" and fct[1] == at:
                            out_facts.add(("isdict", name))
                        elif fct[0] == "in" and fct[2] == at and _is_const_text(fct[1]):
                            out_facts.add(("in", fct[1], name))
            # membership facts whose every free name is passed as a plain name: rename into the callee's parameters
            if facts:
                ren = {a.id: name for name, a in pairs if isinstance(a, ast.Name)}
                for fct in facts:
                    if fct[0] != "in":
                        continue
                    k2, d2 = _rename_text(fct[1], ren), _rename_text(fct[2], ren)
                    if k2 is not None and d2 is not None:
                        out_facts.add(("in", k2, d2))
            # defaults for unbound literal parameters
            for name in f.params:
                if name in bound:
                    continue
                d = f.param_default(name)
                if isinstance(d, ast.Constant):
                    env.append((name, frozenset([Const(d.value)])))
        return Frame(callee, V, tuple(env), frozenset(tainted), frozenset(out_facts))

    def passthrough_arg(self, a: ast.expr, fr: Frame, depth: int = 0) -> ast.expr:
        """For a call of a repository function every `return` of which returns one and the same parameter
        (a checking helper such as `_require_data(data)`), the argument expression bound to that parameter."""
        if isinstance(a, ast.Name) and a.id not in fr.func.params and depth <= 2:
            # a local bound once to such a call (`message_data = _require_data(data)`)
            la = self.local_assigns(fr.func).get(a.id) or []
            if len(la) == 1 and isinstance(la[0], ast.Call):
                r = self.passthrough_arg(la[0], fr, depth + 1)
                if r is not la[0]:
                    return r
            return a
        if not isinstance(a, ast.Call) or depth > 2 or not isinstance(a.func, (ast.Name, ast.Attribute)):
            return a
        h = None
        if isinstance(a.func, ast.Name):
            d = self.prog.resolve_name(fr.module, a.func.id)
            if d is not None and d.kind == "func":
                h = d.obj
        elif isinstance(a.func.value, ast.Name) and a.func.value.id in ("cls", "self") and fr.func.cls is not None:
            h = fr.func.cls.find_method(a.func.attr)
        if h is None or h.is_async or h.node.args.vararg or h.node.args.kwarg:
            return a
        rets = self.return_exprs(h)
        if not rets or not all(isinstance(r, ast.Name) for r in rets) or len({r.id for r in rets}) != 1:
            return a
        prm = rets[0].id
        if prm not in h.params or len(self.local_assigns(h).get(prm) or []) > 0:
            return a
        params = [p for p in h.positional_params if not (p in ("self", "cls") and h.cls is not None)]
        amap = dict(zip(params, a.args))
        for kw in a.keywords:
            if kw.arg:
                amap[kw.arg] = kw.value
        if prm in amap and not isinstance(amap[prm], ast.Starred):
            return self.passthrough_arg(amap[prm], fr, depth + 1)
        return a

    def wrapped_param_names(self, f: FuncInfo) -> set:
        """Names under which a decorator's wrapper function refers to the function it wraps."""
        if f in self.__dict__.get("_partial_wrappers", ()):
            return {f.positional_params[0]}
        return set(f.parent.params) if f.parent is not None else set()

    def _is_wrapper(self, f: FuncInfo) -> bool:
        return f.parent is not None and f.parent.cls is None and f.name in f.parent.nested

    def expr_tainted(self, e: ast.expr, fr: Frame) -> bool:
        if not fr.tainted:
            return False
        if isinstance(e, ast.Name):
            return e.id in fr.tainted
        if isinstance(e, ast.Subscript):
            return self.expr_tainted(e.value, fr)
        if isinstance(e, ast.Await):
            return self.expr_tainted(e.value, fr)
        if isinstance(e, ast.Call) and isinstance(e.func, ast.Attribute) and e.func.attr in ("values", "items", "get", "pop", "copy", "keys"):
            return self.expr_tainted(e.func.value, fr)
        if isinstance(e, ast.BoolOp):
            return any(self.expr_tainted(v, fr) for v in e.values)
        if isinstance(e, ast.IfExp):
            return self.expr_tainted(e.body, fr) or self.expr_tainted(e.orelse, fr)
        if isinstance(e, ast.Call) and any(self.expr_tainted(a, fr) for a in list(e.args) + [k.value for k in e.keywords]):
            return self._call_returns_taint(e, fr)
        return False

    def _call_returns_taint(self, e: ast.Call, fr: Frame) -> bool:
        """A package function handed an untrusted value hands it back: some `return` of the callee yields a (part of a)
        tainted parameter that no `isinstance(<name>, dict)` guard with an early exit has vetted on the way to it."""
        key = ("_crt", id(e), fr.key() if hasattr(fr, "key") else id(fr))
        memo = self.__dict__.setdefault("_crt_memo", {})
        if key in memo:
            return memo[key]
        memo[key] = False  # recursion guard
        try:
            targets = self.resolve_call(e, fr)
        except AnalysisError:
            return False
        res = False
        for t in targets:
            if t.kind != "repo" or t.frame is None or not t.frame.tainted:
                continue
            if isinstance(t.frame.func.node, ast.AsyncFunctionDef) or any(isinstance(n, (ast.Yield, ast.YieldFrom)) for n in ast.walk(t.frame.func.node)):
                continue
            if self._body_returns_taint(t.frame.func.node.body, t.frame, set()):
                res = True
                break
        memo[key] = res
        return res

    def _body_returns_taint(self, body: list, cf: Frame, vetted: set) -> bool:
        vetted = set(vetted)
        for s in body:
            if isinstance(s, ast.Return):
                v = s.value
                if v is not None and self.expr_tainted(v, cf) and not (isinstance(v, ast.Name) and v.id in vetted):
                    return True
                return False
            if isinstance(s, ast.If):
                g = _not_isdict_guard(s.test)
                if g is not None and s.body and isinstance(s.body[-1], (ast.Return, ast.Raise)):
                    if self._body_returns_taint(s.body, cf, vetted):
                        return True
                    if not s.orelse:
                        vetted.add(g)
                        continue
                pos = _isdict_guard(s.test)
                if self._body_returns_taint(s.body, cf, vetted | ({pos} if pos else set())) or self._body_returns_taint(s.orelse, cf, vetted):
                    return True
                continue
            if isinstance(s, (ast.Assign, ast.AnnAssign, ast.AugAssign)):
                for tg in s.targets if isinstance(s, ast.Assign) else [s.target]:
                    for n in ast.walk(tg):
                        if isinstance(n, ast.Name):
                            vetted.discard(n.id)
                continue
            for fld in ("body", "orelse", "finalbody"):
                sub = getattr(s, fld, None)
                if isinstance(sub, list) and sub and isinstance(sub[0], ast.stmt) and self._body_returns_taint(sub, cf, vetted):
                    return True
            for h in getattr(s, "handlers", []) or []:
                if self._body_returns_taint(h.body, cf, vetted):
                    return True
        return False

    def implementations(self, f: FuncInfo) -> list[FuncInfo]:
        """Class-hierarchy expansion of a method: itself (if concrete) + overrides."""
        if f.cls is None:
            return [f]
        out = [] if f.is_abstract() else [f]
        for sub in self.prog.subclasses(f.cls):
            if f.name in sub.methods:
                g = sub.methods[f.name][-1]
                if not g.is_abstract() and g not in out:
                    out.append(g)
        if not out:
            raise AnalysisError(f"abstract method {f.fq} has no implementation in the package")
        return out

    def external_method_names(self) -> set:
        """Full names of external callees that some call in the package resolves to (per mypy)."""
        c = self.__dict__.get("_ext_names")
        if c is None:
            c = set()
            for m in self.prog.modules.values():
                _, cf, _ = self.prog._mod_index(m)
                for lst in cf.values():
                    for f in lst:
                        if f[0]:
                            c.update(f[0].split("|"))
            self.__dict__["_ext_names"] = c
        return c

    def resolve_call(self, call: ast.Call, fr: Frame, for_value: bool = False, facts: frozenset = frozenset()) -> list[Target]:
        self._facts_ctx = facts
        p = self.prog
        m = fr.module
        fact = p.call_fact(m, call)
        argtypes = fact[2] if fact else None
        fn = call.func
        # 1. super().meth(...)
        if isinstance(fn, ast.Attribute) and isinstance(fn.value, ast.Call) and isinstance(fn.value.func, ast.Name) and fn.value.func.id == "super":
            defcls = fr.func.cls
            runcls = fr.callee.cls or defcls
            if defcls is None or runcls is None:
                raise AnalysisError(f"super() outside class at {m.relpath}:{call.lineno}")
            meth = runcls.find_method(fn.attr, after=defcls)
            if meth is None:
                # external base
                exts = [b for b in runcls.mro() if isinstance(b, str)]
                return [Target("external", fullname=f"{exts[0] if exts else 'builtins.object'}.{fn.attr}", argtypes=argtypes)]
            callee = self.make_callee(meth, runcls)
            return [Target("repo", frame=self.bind_call(callee, call, fr, fr.V, facts=self._facts_ctx))]
        # 1b. an attribute of self that holds a bound method of another attribute, stored once (`self._dump =
        # self._schema.dump`): the call is the call of that method
        if isinstance(fn, ast.Attribute) and isinstance(fn.value, ast.Name) and fr.func.cls is not None and fr.func.positional_params[:1] == [fn.value.id] and fr.func.cls.find_method(fn.attr) is None and not getattr(self, "_in_alias", False):
            stores_ = []
            for c_ in (fr.callee.cls or fr.func.cls).repo_mro():
                for fl_ in c_.methods.values():
                    for f_ in fl_:
                        for n_ in self.own_nodes(f_):
                            if isinstance(n_, (ast.Assign, ast.AnnAssign)) and n_.value is not None and any(isinstance(t_, ast.Attribute) and t_.attr == fn.attr and isinstance(t_.value, ast.Name) and t_.value.id == f_.positional_params[0] for t_ in (n_.targets if isinstance(n_, ast.Assign) else [n_.target]) if f_.positional_params):
                                stores_.append((f_, n_.value))
            if len(stores_) == 1 and isinstance(stores_[0][1], ast.Attribute) and isinstance(stores_[0][1].value, ast.Attribute) and isinstance(stores_[0][1].value.value, ast.Name) and stores_[0][1].value.value.id == stores_[0][0].positional_params[0] and stores_[0][0].name == "__init__":
                sv_ = stores_[0][1]
                synth = ast.copy_location(ast.Call(func=ast.copy_location(ast.Attribute(value=ast.copy_location(ast.Attribute(value=ast.copy_location(ast.Name(id=fn.value.id, ctx=ast.Load()), fn), attr=sv_.value.attr, ctx=ast.Load()), fn), attr=sv_.attr, ctx=ast.Load()), fn), args=call.args, keywords=call.keywords), call)
                # typed facts of the stored method reference stand in for the call's
                bt_ = p.type_of(stores_[0][0].module, sv_.value) or ""
                if bt_:
                    base_ = bt_.split("[")[0].replace(" | None", "")
                    full_ = f"{base_}.{sv_.attr}"
                    d_ = p.lookup_fullname(full_)
                    if d_ is not None and d_.kind == "func":
                        return [Target("repo", frame=self.bind_call(self.make_callee(d_.obj, d_.obj.cls), call, fr, fr.V, skip_first=True, facts=self._facts_ctx))]
                    dc_ = p.lookup_fullname(base_)
                    if dc_ is not None and dc_.kind == "class":
                        meth_ = dc_.obj.find_method(sv_.attr)
                        if meth_ is not None:
                            return [Target("repo", frame=self.bind_call(self.make_callee(meth_, dc_.obj), call, fr, fr.V, skip_first=True, facts=self._facts_ctx))]
                        from . import summaries as _S

                        for ext_ in [b for b in dc_.obj.mro() if isinstance(b, str)]:
                            ext_ = _EXTERNAL_ALIASES.get(ext_, ext_)
                            if f"{ext_}.{sv_.attr}" in _S.SUMMARIES:
                                return [Target("external", fullname=f"{ext_}.{sv_.attr}", argtypes=argtypes)]
        # 2. own evaluation of the callee expression (function values)
        if not (isinstance(fn, ast.Name) and fn.id == "getattr"):
            vals = self.eval(fn, fr) if not for_value or True else frozenset()
            if vals and UNKNOWN not in vals:
                out = []
                for v in sorted(vals, key=repr):
                    if isinstance(v, Callee):
                        out.append(Target("repo", frame=self.bind_call(v, call, fr, fr.V, facts=self._facts_ctx)))
                    elif isinstance(v, ClassVal):
                        out.append(self._ctor_target(v.cls, call, fr, argtypes))
                    elif isinstance(v, InstVal) and v.cls.find_method("__call__") is not None:
                        cm = v.cls.find_method("__call__")
                        cfr = self.bind_call(self.make_callee(cm, v.cls), call, fr, fr.V, skip_first=True, facts=self._facts_ctx)
                        if v.obj is not None:
                            cfr = cfr.bind(cm.positional_params[0], frozenset([v.obj]))
                        out.append(Target("repo", frame=cfr))
                    elif isinstance(v, Absent):
                        out.append(Target("absent", fullname=f"{v.owner}.{v.name}"))
                    elif isinstance(v, Const) and v.value is None:
                        out.append(Target("none"))
                    else:
                        out = None
                        break
                if out is not None:
                    return out
        # 2b. `self.m(...)` in a method that is being analysed for a subclass of the class that defines it (template
        # method): the override of the frame's run-time class, not the definition the static type names
        if isinstance(fn, ast.Attribute) and isinstance(fn.value, ast.Name) and fr.func.cls is not None and fr.callee.cls is not None and fr.callee.cls is not fr.func.cls and fr.func.positional_params and fn.value.id == fr.func.positional_params[0] and fr.func.parent is None and not fr.func.is_staticmethod():
            meth = fr.callee.cls.find_method(fn.attr)
            base_meth = fr.func.cls.find_method(fn.attr)
            if meth is not None and base_meth is not None and meth is not base_meth and not any(ast.unparse(d_) == "property" for d_ in meth.node.decorator_list):
                return [Target("repo", frame=self.bind_call(self.make_callee(meth, fr.callee.cls), call, fr, fr.V, facts=self._facts_ctx))]
        # 3. mypy fact
        if fact is None and isinstance(fn, ast.Attribute) and isinstance(fn.value, ast.Name) and fr.func.positional_params and fn.value.id == fr.func.positional_params[0] and fn.value.id in ("self", "cls"):
            # a call the analysis wrote itself (e.g. the callback of a desugared exit stack): a method of the own class
            runcls = fr.callee.cls or fr.func.cls
            meth = runcls.find_method(fn.attr) if runcls is not None else None
            if meth is not None:
                return [Target("repo", frame=self.bind_call(self.make_callee(meth, runcls), call, fr, fr.V, facts=self._facts_ctx))]
        if fact is None and isinstance(fn, (ast.Name, ast.Attribute)):
            # a call the analysis wrote itself (no typed fact at its position): resolved through the module's names
            d0 = p.resolve_expr(m, fn)
            if d0 is not None and d0.kind == "external":
                return [Target("external", fullname=_EXTERNAL_ALIASES.get(d0.obj, d0.obj), argtypes=None)]
            if d0 is not None and d0.kind == "class":
                return [self._ctor_target(d0.obj, call, fr, None)]
            if d0 is not None and d0.kind == "func":
                return [Target("repo", frame=self.bind_call(self.make_callee(d0.obj, d0.obj.cls), call, fr, fr.V, facts=self._facts_ctx))]
        if fact is None:
            return [Target("unknown", note=f"no type fact for call {norm(call)[:80]}")]
        full, kind, _ = fact
        if full is None or (kind == "name" and "." not in full):
            # a local variable holding a callable object: dispatch on its type's __call__
            t = p.type_of(m, fn)
            if t and not t.startswith(("def ", "Overload", "Any")) and "." in t.split("[")[0]:
                base = t.split("[")[0]
                if base.startswith(PKG + "."):
                    d = p.lookup_fullname(base)
                    if d is not None and d.kind == "class":
                        cm = d.obj.find_method("__call__")
                        if cm is not None:
                            return [Target("repo", frame=self.bind_call(self.make_callee(cm, d.obj), call, fr, fr.V, facts=self._facts_ctx))]
                return [Target("external", fullname=f"{base}.__call__", argtypes=argtypes)]
            # a local bound once to a bound method (`read = self.transport.read` ... `await read()`)
            if isinstance(fn, ast.Name):
                la = self.local_assigns(fr.func).get(fn.id) or []
                if len(la) == 1 and isinstance(la[0], ast.Attribute):
                    bt = (p.type_of(m, la[0].value) or "").split("[")[0]
                    d = p.lookup_fullname(bt) if bt.startswith(PKG + ".") else None
                    if d is not None and d.kind == "class":
                        meth = d.obj.find_method(la[0].attr)
                        if meth is not None and meth.cls is not None:
                            outs = self._target_for_fullname(f"{meth.cls.fq}.{la[0].attr}", "method", call, fr, argtypes)
                            if outs:
                                return outs
                        if meth is None and d.obj.find_attr(la[0].attr) is not None:
                            # a field holding a callable (`cancel = self._cancel_save` ... `await cancel()`)
                            owner = d.obj.find_attr(la[0].attr)[0]
                            outs = self._target_for_fullname(f"{owner.fq}.{la[0].attr}", "method", call, fr, argtypes)
                            if outs:
                                return outs
                        exts = [b for b in (p.facts.get("mro", {}).get(bt) or []) if not b.startswith(PKG + ".")]
                        if meth is None and exts:
                            known = [b for b in exts if f"{b}.{la[0].attr}" in self.external_method_names()]
                            if known:
                                return self._target_for_fullname(f"{known[0]}.{la[0].attr}", "method", call, fr, argtypes)
            # a local bound once to one of the protocol's enum classes (`command_type = protocol.Command` ...
            # `command_type(value)`), the protocol object itself being untyped: an enum lookup by value
            if isinstance(fn, ast.Name):
                la = self.local_assigns(fr.func).get(fn.id) or []
                if len(la) == 1 and isinstance(la[0], ast.Attribute) and la[0].attr in ("Command", "Internal", "Stream", "Presentation", "SetReq") and len(call.args) == 1 and not call.keywords:
                    cls_ = None
                    if fr.V is not None:
                        try:
                            cls_ = self.vclass(fr.V, la[0].attr)
                        except AnalysisError:
                            cls_ = None
                    return [Target("external", fullname="enum.IntEnum.__call__", cls=cls_, argtypes=argtypes)]
            # a local that holds a class of the repository (`error_type = TABLE[key]` ... `error_type(text)`): the
            # constructor of the declared class or of one of its subclasses
            if isinstance(fn, ast.Name) and t and (t.startswith("def (") or t.startswith("type[")):
                ret = t.rsplit("->", 1)[-1].strip() if t.startswith("def (") else t[5:-1]
                ret = ret.split("[")[0]
                if ret.startswith(PKG + "."):
                    dd = p.lookup_fullname(ret)
                    if dd is not None and dd.kind == "class":
                        cs = [dd.obj] + [c_ for c_ in p.subclasses(dd.obj) if c_ is not dd.obj]
                        return [self._ctor_target(c_, call, fr, argtypes) for c_ in cs]
            return [Target("unknown", note=f"unresolved callee {norm(fn)[:60]} : {t}")]
        outs: list[Target] = []
        for one in full.split("|"):
            outs.extend(self._target_for_fullname(one, kind, call, fr, argtypes))
        return outs

    def _ctor_target(self, c: ClassInfo, call, fr, argtypes) -> Target:
        if self.folder.is_enum(c):
            return Target("external", fullname="enum.IntEnum.__call__", cls=c, argtypes=argtypes)
        init = c.find_method("__init__")
        frame = None
        if init is not None:
            frame = self.bind_call(Callee(init, c, ()), call, fr, fr.V, skip_first=True, facts=self._facts_ctx)
        return Target("ctor", frame=frame, cls=c, argtypes=argtypes)

    def _target_for_fullname(self, full: str, kind: str, call, fr, argtypes) -> list[Target]:
        p = self.prog
        if full.endswith("?") and full.startswith(PKG + "."):
            # the type checker found no such member on a repository class (one arm of a union, typically): when the
            # class - all repository classes of its MRO, no external base but object - has neither a method nor an
            # attribute of that name, the call raises AttributeError for an object of that class
            owner, _, attr = full[:-1].rpartition(".")
            d = p.lookup_fullname(owner)
            if d is not None and d.kind == "class":
                c = d.obj
                exts = [b for b in c.external_bases() if b not in ("builtins.object", "object")]
                stored = any(isinstance(x, ast.Attribute) and x.attr == attr and isinstance(x.ctx, ast.Store) for k in c.repo_mro() for x in ast.walk(k.node))
                if not exts and c.find_method(attr) is None and c.find_attr(attr) is None and not stored and not c.find_method("__getattr__") and not c.find_method("__getattribute__"):
                    return [Target("noattr", fullname=full[:-1], cls=c)]
        if full.startswith("<Any>") and isinstance(call.func, ast.Attribute) and isinstance(call.func.value, ast.Name) and p.aiofiles_with_target(fr.module, fr.func.node, call.func.value.id):
            # the file object of `async with <helper that returns aiofiles.open(...)> as f`
            return [Target("external", fullname=f"aiofiles.threadpool.text.AsyncTextIOWrapper.{call.func.attr}", argtypes=argtypes)]
        if full.endswith("?") or full.startswith("<Any>"):
            return [Target("unknown", note=f"callee {full} not typed")]
        if full.startswith(PKG + "."):
            # ProtocolType.X(...) : member of the active protocol module
            if full.startswith(PROTOCOL_TYPE + "."):
                attr = full[len(PROTOCOL_TYPE) + 1 :]
                if fr.V is None:
                    return [Target("unknown", note="protocol member used outside a version context")]
                vals = self._module_attr(self.vmod(fr.V), attr)
                out = []
                for v in vals:
                    if isinstance(v, ClassVal):
                        out.append(self._ctor_target(v.cls, call, fr, argtypes))
                    elif isinstance(v, Callee):
                        out.append(Target("repo", frame=self.bind_call(v, call, fr, fr.V, facts=self._facts_ctx)))
                    else:
                        out.append(Target("unknown", note=f"protocol attribute {attr} is not callable"))
                return out
            d = p.lookup_fullname(full)
            if d is None:
                # nested function referenced by mypy's odd name
                nm = full.rsplit(".", 1)[-1]
                scope = fr.func
                while scope is not None:
                    if nm in scope.nested:
                        return [Target("repo", frame=self.bind_call(Callee(scope.nested[nm], fr.callee.cls, fr.callee.env + fr.env), call, fr, fr.V, facts=self._facts_ctx))]
                    scope = scope.parent
                return [Target("unknown", note=f"cannot map {full}")]
            if d.kind == "class":
                return [self._ctor_target(d.obj, call, fr, argtypes)]
            if d.kind == "func":
                f: FuncInfo = d.obj
                out = []
                for impl in self.implementations(f):
                    callee = self.make_callee(impl, impl.cls)
                    out.append(Target("repo", frame=self.bind_call(callee, call, fr, fr.V, facts=self._facts_ctx)))
                return out
            if d.kind == "classattr":
                # callable attribute (e.g. a dataclass field holding a coroutine function)
                return [Target("attr-callable", fullname=full)]
            if d.kind == "external":
                return [Target("external", fullname=d.obj, argtypes=argtypes)]
            if d.kind == "const":
                # a module-level constant holding a callable object (e.g. a validator instance): call its type
                t = p.type_of(fr.module, call.func) or ""
                base = t.split("[")[0]
                if base and "." in base and not base.startswith(("def ", "Overload", "Any")):
                    if base.startswith(PKG + "."):
                        dd = p.lookup_fullname(base)
                        if dd is not None and dd.kind == "class":
                            cm = dd.obj.find_method("__call__")
                            if cm is not None:
                                return [Target("repo", frame=self.bind_call(self.make_callee(cm, dd.obj), call, fr, fr.V, facts=self._facts_ctx))]
                    return [Target("external", fullname=f"{base}.__call__", argtypes=argtypes)]
            return [Target("unknown", note=f"{full} is a {d.kind}")]
        return [Target("external", fullname=full, argtypes=argtypes)]
